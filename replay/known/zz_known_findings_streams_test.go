package streams

import (
	"context"
	"testing"

	vocab "github.com/go-fed/activity/streams/vocab"
)

// F16: a callback that returns streams.ErrUnhandledType for a multi-typed JSON value makes
// JSONResolver.Resolve go on to the next "type" entry: a second callback is invoked and the first
// callback's error is not returned.
func TestKnownFinding_F16(t *testing.T) {
	calls := []string{}
	r, err := NewJSONResolver(
		func(c context.Context, n vocab.ActivityStreamsNote) error { calls = append(calls, "Note"); return ErrUnhandledType },
		func(c context.Context, a vocab.ActivityStreamsArticle) error { calls = append(calls, "Article"); return nil },
	)
	if err != nil {
		t.Fatal(err)
	}
	m := map[string]interface{}{
		"@context": "https://www.w3.org/ns/activitystreams",
		"type":     []interface{}{"Note", "Article"},
		"id":       "https://example.com/1",
	}
	got := r.Resolve(context.Background(), m)
	if len(calls) != 1 || got != ErrUnhandledType {
		t.Fatalf("callbacks invoked: %v, returned error: %v (want exactly [Note] and the callback's own error)", calls, got)
	}
}
