package streams

import (
	"net/url"
	"context"
	"testing"

	vocab "github.com/go-fed/activity/streams/vocab"
)

// F16: a callback that returns streams.ErrUnhandledType for a multi-typed JSON value makes
// JSONResolver.Resolve go on to the next "type" entry: a second callback is invoked and the first
// callback's error is not returned.
func TestKnownFinding_F16(t *testing.T) {
	calls := []string{}
	r, err := NewJSONResolver(
		func(c context.Context, n vocab.ActivityStreamsNote) error { calls = append(calls, "Note"); return ErrUnhandledType },
		func(c context.Context, a vocab.ActivityStreamsArticle) error { calls = append(calls, "Article"); return nil },
	)
	if err != nil {
		t.Fatal(err)
	}
	m := map[string]interface{}{
		"@context": "https://www.w3.org/ns/activitystreams",
		"type":     []interface{}{"Note", "Article"},
		"id":       "https://example.com/1",
	}
	got := r.Resolve(context.Background(), m)
	if len(calls) != 1 || got != ErrUnhandledType {
		t.Fatalf("callbacks invoked: %v, returned error: %v (want exactly [Note] and the callback's own error)", calls, got)
	}
}

// F10 (C18): Swap exchanges two elements of a non-functional property but leaves each element's own
// position (myIdx) as it was, so iteration with Next() from a swapped element goes wrong.
func TestKnownFinding_F10(t *testing.T) {
	p := NewActivityStreamsToProperty()
	for _, s := range []string{"https://example.com/a", "https://example.com/b", "https://example.com/c"} {
		u, _ := url.Parse(s)
		p.AppendIRI(u)
	}
	p.Swap(0, 2)
	var got []string
	for it := p.Begin(); it != p.End(); it = it.Next() {
		got = append(got, it.GetIRI().String())
		if len(got) > 10 {
			break
		}
	}
	want := []string{"https://example.com/c", "https://example.com/b", "https://example.com/a"}
	if len(got) != len(want) {
		t.Fatalf("after Swap(0,2) forward iteration visits %v, want %v", got, want)
	}
	for i := range want {
		if got[i] != want[i] {
			t.Fatalf("after Swap(0,2) forward iteration visits %v, want %v", got, want)
		}
	}
}

// F9 (C11): an empty (or "-") xsd:duration made DeserializeDuration index s[0] on an empty string:
// streams.ToType panicked on hostile input such as {"type":"Note","duration":""}.
func TestKnownFinding_F9(t *testing.T) {
	for _, d := range []string{"", "-"} {
		func() {
			defer func() {
				if r := recover(); r != nil {
					t.Fatalf("ToType panicked on duration %q: %v", d, r)
				}
			}()
			m := map[string]interface{}{"@context": "https://www.w3.org/ns/activitystreams", "type": "Note", "id": "https://example.com/n", "duration": d}
			ToType(context.Background(), m)
		}()
	}
}
