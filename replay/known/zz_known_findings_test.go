package pub

// Concrete scenarios for the known findings listed in /verif/known_findings.json.
// Each test drives the REAL code of package pub with hand-written fakes and FAILS (t.Errorf)
// when the defect shows, so "go test -run TestKnownFinding_F1" failing = finding reproduced.
// Injected with: go test -overlay (see /verif/check replay-known).

import (
	"context"
	"encoding/json"
	"errors"
	"fmt"
	"net/http"
	"net/http/httptest"
	"net/url"
	"strings"
	"testing"
	"time"

	"github.com/go-fed/activity/streams"
	"github.com/go-fed/activity/streams/vocab"
)

type kfDB struct {
	held    map[string]int
	log     []string
	bad     []string
	failOn  map[string]int // call name -> nth occurrence (1-based) fails
	seen    map[string]int
	owns    map[string]bool
	values  map[string]vocab.Type
	getNil  bool
	actorOf string
	updated []vocab.Type
}

func newKfDB() *kfDB {
	return &kfDB{held: map[string]int{}, failOn: map[string]int{}, seen: map[string]int{}, owns: map[string]bool{}, values: map[string]vocab.Type{}, actorOf: "https://local.example/actor"}
}
func (d *kfDB) fail(name string) error {
	d.seen[name]++
	if n, ok := d.failOn[name]; ok && n == d.seen[name] {
		return fmt.Errorf("injected failure of %s #%d", name, n)
	}
	return nil
}
func (d *kfDB) access(name string) {
	d.log = append(d.log, name)
	total := 0
	for _, n := range d.held {
		total += n
	}
	if total == 0 {
		d.bad = append(d.bad, name+" without any lock held")
	}
}
func (d *kfDB) Lock(c context.Context, id *url.URL) error {
	if err := d.fail("Lock"); err != nil {
		return err
	}
	k := "<nil>"
	if id != nil {
		k = id.String()
	}
	if d.held[k] > 0 {
		d.bad = append(d.bad, "RELOCK of "+k+" while held")
	}
	d.held[k]++
	d.log = append(d.log, "Lock "+k)
	return nil
}
func (d *kfDB) Unlock(c context.Context, id *url.URL) error {
	k := "<nil>"
	if id != nil {
		k = id.String()
	}
	if d.held[k] == 0 {
		d.bad = append(d.bad, "Unlock of "+k+" not held")
	} else {
		d.held[k]--
	}
	d.log = append(d.log, "Unlock "+k)
	return nil
}
func (d *kfDB) stillHeld() []string {
	var r []string
	for k, n := range d.held {
		if n > 0 {
			r = append(r, k)
		}
	}
	return r
}
func (d *kfDB) InboxContains(c context.Context, inbox, id *url.URL) (bool, error) {
	d.access("InboxContains")
	return false, d.fail("InboxContains")
}
func (d *kfDB) GetInbox(c context.Context, inboxIRI *url.URL) (vocab.ActivityStreamsOrderedCollectionPage, error) {
	d.access("GetInbox")
	return streams.NewActivityStreamsOrderedCollectionPage(), d.fail("GetInbox")
}
func (d *kfDB) SetInbox(c context.Context, inbox vocab.ActivityStreamsOrderedCollectionPage) error {
	d.access("SetInbox")
	return d.fail("SetInbox")
}
func (d *kfDB) Owns(c context.Context, id *url.URL) (bool, error) {
	d.access("Owns")
	return d.owns[id.String()], d.fail("Owns")
}
func (d *kfDB) ActorForOutbox(c context.Context, outboxIRI *url.URL) (*url.URL, error) {
	d.access("ActorForOutbox")
	u, _ := url.Parse(d.actorOf)
	return u, d.fail("ActorForOutbox")
}
func (d *kfDB) ActorForInbox(c context.Context, inboxIRI *url.URL) (*url.URL, error) {
	d.access("ActorForInbox")
	u, _ := url.Parse(d.actorOf)
	return u, d.fail("ActorForInbox")
}
func (d *kfDB) OutboxForInbox(c context.Context, inboxIRI *url.URL) (*url.URL, error) {
	d.access("OutboxForInbox")
	u, _ := url.Parse("https://local.example/outbox")
	return u, d.fail("OutboxForInbox")
}
func (d *kfDB) InboxForActor(c context.Context, actorIRI *url.URL) (*url.URL, error) {
	d.access("InboxForActor")
	return nil, d.fail("InboxForActor")
}
func (d *kfDB) Exists(c context.Context, id *url.URL) (bool, error) {
	d.access("Exists")
	return false, d.fail("Exists")
}
func (d *kfDB) Get(c context.Context, id *url.URL) (vocab.Type, error) {
	d.access("Get")
	if err := d.fail("Get"); err != nil {
		return nil, err
	}
	if d.getNil {
		return nil, nil
	}
	return d.values[id.String()], nil
}
func (d *kfDB) Create(c context.Context, asType vocab.Type) error { d.access("Create"); return d.fail("Create") }
func (d *kfDB) Update(c context.Context, asType vocab.Type) error {
	d.access("Update")
	d.updated = append(d.updated, asType)
	return d.fail("Update")
}
func (d *kfDB) Delete(c context.Context, id *url.URL) error       { d.access("Delete"); return d.fail("Delete") }
func (d *kfDB) GetOutbox(c context.Context, outboxIRI *url.URL) (vocab.ActivityStreamsOrderedCollectionPage, error) {
	d.access("GetOutbox")
	return streams.NewActivityStreamsOrderedCollectionPage(), d.fail("GetOutbox")
}
func (d *kfDB) SetOutbox(c context.Context, outbox vocab.ActivityStreamsOrderedCollectionPage) error {
	d.access("SetOutbox")
	return d.fail("SetOutbox")
}
func (d *kfDB) NewID(c context.Context, t vocab.Type) (*url.URL, error) {
	u, _ := url.Parse(fmt.Sprintf("https://local.example/new/%d", len(d.log)))
	return u, d.fail("NewID")
}
func (d *kfDB) Followers(c context.Context, actorIRI *url.URL) (vocab.ActivityStreamsCollection, error) {
	d.access("Followers")
	return streams.NewActivityStreamsCollection(), d.fail("Followers")
}
func (d *kfDB) Following(c context.Context, actorIRI *url.URL) (vocab.ActivityStreamsCollection, error) {
	d.access("Following")
	return streams.NewActivityStreamsCollection(), d.fail("Following")
}
func (d *kfDB) Liked(c context.Context, actorIRI *url.URL) (vocab.ActivityStreamsCollection, error) {
	d.access("Liked")
	return streams.NewActivityStreamsCollection(), d.fail("Liked")
}

type kfTransport struct {
	docs      map[string]string
	delivered [][]string
}

func (t *kfTransport) Dereference(c context.Context, iri *url.URL) ([]byte, error) {
	if s, ok := t.docs[iri.String()]; ok {
		return []byte(s), nil
	}
	return nil, errors.New("not found")
}
func (t *kfTransport) Deliver(c context.Context, b []byte, to *url.URL) error { return nil }
func (t *kfTransport) BatchDeliver(c context.Context, b []byte, recipients []*url.URL) error {
	var r []string
	for _, u := range recipients {
		r = append(r, u.String())
	}
	t.delivered = append(t.delivered, r)
	return nil
}

type kfApp struct {
	db          *kfDB
	tp          *kfTransport
	blockedArgs [][]string
	onFollow    OnFollowBehavior
	social      SocialWrappedCallbacks
}

func (a *kfApp) AuthenticateGetInbox(c context.Context, w http.ResponseWriter, r *http.Request) (context.Context, bool, error) {
	return c, true, nil
}
func (a *kfApp) AuthenticateGetOutbox(c context.Context, w http.ResponseWriter, r *http.Request) (context.Context, bool, error) {
	return c, true, nil
}
func (a *kfApp) GetOutbox(c context.Context, r *http.Request) (vocab.ActivityStreamsOrderedCollectionPage, error) {
	return streams.NewActivityStreamsOrderedCollectionPage(), nil
}
func (a *kfApp) NewTransport(c context.Context, actorBoxIRI *url.URL, gofedAgent string) (Transport, error) {
	return a.tp, nil
}
func (a *kfApp) PostInboxRequestBodyHook(c context.Context, r *http.Request, activity Activity) (context.Context, error) {
	return c, nil
}
func (a *kfApp) AuthenticatePostInbox(c context.Context, w http.ResponseWriter, r *http.Request) (context.Context, bool, error) {
	return c, true, nil
}
func (a *kfApp) Blocked(c context.Context, actorIRIs []*url.URL) (bool, error) {
	var s []string
	for _, u := range actorIRIs {
		if u == nil {
			s = append(s, "<nil>")
		} else {
			s = append(s, u.String())
		}
	}
	a.blockedArgs = append(a.blockedArgs, s)
	return false, nil
}
func (a *kfApp) FederatingCallbacks(c context.Context) (FederatingWrappedCallbacks, []interface{}, error) {
	return FederatingWrappedCallbacks{OnFollow: a.onFollow}, nil, nil
}
func (a *kfApp) DefaultCallback(c context.Context, activity Activity) error { return nil }
func (a *kfApp) MaxInboxForwardingRecursionDepth(c context.Context) int    { return 3 }
func (a *kfApp) MaxDeliveryRecursionDepth(c context.Context) int           { return 3 }
func (a *kfApp) FilterForwarding(c context.Context, potentialRecipients []*url.URL, act Activity) ([]*url.URL, error) {
	return potentialRecipients, nil
}
func (a *kfApp) GetInbox(c context.Context, r *http.Request) (vocab.ActivityStreamsOrderedCollectionPage, error) {
	return streams.NewActivityStreamsOrderedCollectionPage(), nil
}
func (a *kfApp) PostOutboxRequestBodyHook(c context.Context, r *http.Request, data vocab.Type) (context.Context, error) {
	return c, nil
}
func (a *kfApp) AuthenticatePostOutbox(c context.Context, w http.ResponseWriter, r *http.Request) (context.Context, bool, error) {
	return c, true, nil
}
func (a *kfApp) SocialCallbacks(c context.Context) (SocialWrappedCallbacks, []interface{}, error) {
	return a.social, nil, nil
}

func kfSetup() (*kfApp, *sideEffectActor, FederatingActor) {
	db := newKfDB()
	app := &kfApp{db: db, tp: &kfTransport{docs: map[string]string{}}}
	actor := NewActor(app, app, app, db, &kfFixedClock{})
	sea := &sideEffectActor{common: app, s2s: app, c2s: app, db: db, clock: &kfFixedClock{}}
	return app, sea, actor
}

type kfFixedClock struct{}

func (*kfFixedClock) Now() time.Time { return time.Unix(1600000000, 0) }

func kfMustType(t *testing.T, js string) vocab.Type {
	var m map[string]interface{}
	if err := json.Unmarshal([]byte(js), &m); err != nil {
		t.Fatal(err)
	}
	v, err := streams.ToType(context.Background(), m)
	if err != nil {
		t.Fatal(err)
	}
	return v
}

func kfURL(s string) *url.URL { u, _ := url.Parse(s); return u }

func kfRecoverAsError(t *testing.T, what string) {
	if r := recover(); r != nil {
		t.Errorf("%s: PANIC: %v", what, r)
	}
}

const kfCtx = `"@context":"https://www.w3.org/ns/activitystreams"`

// F1: collection lock leaked when Get fails in InboxForwarding
func TestKnownFinding_F1(t *testing.T) {
	app, sea, _ := kfSetup()
	app.db.owns["https://local.example/followers"] = true
	app.db.failOn["Get"] = 1
	act := kfMustType(t, `{`+kfCtx+`,"type":"Create","id":"https://peer.example/a/1","actor":"https://peer.example/u","to":"https://local.example/followers","object":"https://peer.example/n/1"}`).(Activity)
	err := sea.InboxForwarding(context.Background(), kfURL("https://local.example/inbox"), act)
	if err == nil {
		t.Fatal("expected the injected Get failure")
	}
	if h := app.db.stillHeld(); len(h) > 0 {
		t.Errorf("F1 reproduced: locks still held at return: %v", h)
	}
}

// F2: same owned collection named in to and cc is locked again while held
func TestKnownFinding_F2(t *testing.T) {
	app, sea, _ := kfSetup()
	app.db.owns["https://local.example/followers"] = true
	col := streams.NewActivityStreamsCollection()
	app.db.values["https://local.example/followers"] = col
	act := kfMustType(t, `{`+kfCtx+`,"type":"Create","id":"https://peer.example/a/2","actor":"https://peer.example/u","to":"https://local.example/followers","cc":"https://local.example/followers","object":"https://peer.example/n/1"}`).(Activity)
	sea.InboxForwarding(context.Background(), kfURL("https://local.example/inbox"), act)
	for _, b := range app.db.bad {
		if strings.HasPrefix(b, "RELOCK") {
			t.Errorf("F2 reproduced: %s", b)
		}
	}
}

// F3: federating follow ignores a failed Lock of the inbox
func TestKnownFinding_F3(t *testing.T) {
	app, _, _ := kfSetup()
	app.onFollow = OnFollowAutomaticallyAccept
	w := FederatingWrappedCallbacks{OnFollow: OnFollowAutomaticallyAccept, db: app.db, inboxIRI: kfURL("https://local.example/inbox"),
		addNewIds: func(c context.Context, a Activity) error { return nil },
		deliver:   func(c context.Context, o *url.URL, a Activity) error { return nil },
		newTransport: app.NewTransport}
	app.db.failOn["Lock"] = 3 // 1: inbox (ActorForInbox), 2: actor (Followers), 3: inbox again (ignored result)
	f := kfMustType(t, `{`+kfCtx+`,"type":"Follow","id":"https://peer.example/f/1","actor":"https://peer.example/u","object":"https://local.example/actor"}`).(vocab.ActivityStreamsFollow)
	w.follow(context.Background(), f)
	if len(app.db.bad) > 0 {
		t.Errorf("F3 reproduced: %v", app.db.bad)
	}
}

// F5: inbox activity whose id is not an IRI is processed instead of answered 400
func TestKnownFinding_F5(t *testing.T) {
	_, _, actor := kfSetup()
	body := `{` + kfCtx + `,"type":"Create","id":5,"actor":"https://peer.example/u","object":{"type":"Note","id":"https://peer.example/n/1"}}`
	r := httptest.NewRequest("POST", "https://local.example/inbox", strings.NewReader(body))
	r.Header.Set("Content-Type", "application/activity+json")
	w := httptest.NewRecorder()
	func() {
		defer kfRecoverAsError(t, "F5 PostInbox")
		handled, err := actor.PostInbox(context.Background(), w, r)
		if handled && err == nil && w.Code != http.StatusBadRequest {
			t.Errorf("F5 reproduced: id 5 is not usable but status is %d, not 400", w.Code)
		}
	}()
}

// F6: GetId returns (nil, nil) for a value whose id is not an IRI -> nil *url.URL dereferenced by callers
func TestKnownFinding_F6(t *testing.T) {
	v := kfMustType(t, `{`+kfCtx+`,"type":"Person","id":7}`)
	id, err := GetId(v)
	if err == nil && id == nil {
		t.Errorf("F6 reproduced: GetId returned (nil, nil)")
	}
	app, _, _ := kfSetup()
	w := FederatingWrappedCallbacks{db: app.db, inboxIRI: kfURL("https://local.example/inbox"), newTransport: app.NewTransport}
	f := kfMustType(t, `{`+kfCtx+`,"type":"Follow","id":"https://peer.example/f/1","actor":"https://peer.example/u","object":{"type":"Person","id":7}}`).(vocab.ActivityStreamsFollow)
	w.OnFollow = OnFollowAutomaticallyAccept
	func() {
		defer kfRecoverAsError(t, "F6 federating follow with object id 7")
		w.follow(context.Background(), f)
	}()
}

// F7: activities lacking 'actor' where the code iterates it unguarded
func TestKnownFinding_F7(t *testing.T) {
	app, _, _ := kfSetup()
	w := FederatingWrappedCallbacks{db: app.db, inboxIRI: kfURL("https://local.example/inbox"), newTransport: app.NewTransport}
	acc := kfMustType(t, `{`+kfCtx+`,"type":"Accept","id":"https://peer.example/acc/1","actor":"https://peer.example/u","object":{"type":"Follow","id":"https://local.example/f/1","object":"https://peer.example/u"}}`).(vocab.ActivityStreamsAccept)
	func() {
		defer kfRecoverAsError(t, "F7 Accept embedding a Follow without actor")
		w.accept(context.Background(), acc)
	}()
	sw := SocialWrappedCallbacks{db: app.db, outboxIRI: kfURL("https://local.example/outbox"), newTransport: app.NewTransport, undeliverable: new(bool)}
	undo := kfMustType(t, `{`+kfCtx+`,"type":"Undo","id":"https://local.example/undo/1","object":"https://local.example/like/1"}`).(vocab.ActivityStreamsUndo)
	func() {
		defer kfRecoverAsError(t, "F7 outbox Undo without actor")
		sw.undo(context.Background(), undo)
	}()
}

// F8: dereferenced actor without inbox
func TestKnownFinding_F8(t *testing.T) {
	v := kfMustType(t, `{`+kfCtx+`,"type":"Person","id":"https://peer.example/u"}`)
	func() {
		defer kfRecoverAsError(t, "F8 getInbox on an actor without inbox")
		getInbox(v)
	}()
}

// F14: Database.Get answering (nil, nil) on the outbox Update/Delete paths
func TestKnownFinding_F14(t *testing.T) {
	app, _, _ := kfSetup()
	app.db.getNil = true
	sw := SocialWrappedCallbacks{db: app.db, outboxIRI: kfURL("https://local.example/outbox"), newTransport: app.NewTransport, undeliverable: new(bool), clock: &kfFixedClock{}}
	del := kfMustType(t, `{`+kfCtx+`,"type":"Delete","id":"https://local.example/d/1","actor":"https://local.example/actor","object":"https://local.example/n/404"}`).(vocab.ActivityStreamsDelete)
	func() {
		defer kfRecoverAsError(t, "F14 social Delete of an id the Database has no value for")
		sw.deleteFn(context.Background(), del)
	}()
	upd := kfMustType(t, `{`+kfCtx+`,"type":"Update","id":"https://local.example/u/1","actor":"https://local.example/actor","object":{"type":"Note","id":"https://local.example/n/404"}}`).(vocab.ActivityStreamsUpdate)
	func() {
		defer kfRecoverAsError(t, "F14 social Update of an id the Database has no value for")
		sw.update(context.Background(), upd)
	}()
}

// F15: a non-IRI, non-object value in inReplyTo/tag/object/target yields a nil IRI that is locked and dereferenced
func TestKnownFinding_F15(t *testing.T) {
	v := kfMustType(t, `{`+kfCtx+`,"type":"Create","id":"https://peer.example/a/3","actor":"https://peer.example/u","object":7}`)
	_, iris := getInboxForwardingValues(v)
	for _, u := range iris {
		if u == nil {
			t.Errorf("F15 reproduced: getInboxForwardingValues returned a nil IRI")
		}
	}
}

// F4 (C06) and its C11 face: embedded actor -> Blocked is asked about the ACTIVITY id (nil if that id is unusable)
func TestKnownFinding_F4(t *testing.T) {
	app, sea, _ := kfSetup()
	act := kfMustType(t, `{`+kfCtx+`,"type":"Create","id":"https://peer.example/a/4","actor":{"type":"Person","id":"https://evil.example/u"},"object":"https://peer.example/n/1"}`).(Activity)
	w := httptest.NewRecorder()
	sea.AuthorizePostInbox(context.Background(), w, act)
	if len(app.blockedArgs) == 1 && len(app.blockedArgs[0]) == 1 && app.blockedArgs[0][0] != "https://evil.example/u" {
		t.Errorf("F4 reproduced: Blocked was asked about %v, not about the actor id https://evil.example/u", app.blockedArgs[0])
	}
	act2 := kfMustType(t, `{`+kfCtx+`,"type":"Create","id":5,"actor":{"type":"Person","id":"https://evil.example/u"},"object":"https://peer.example/n/1"}`).(Activity)
	sea.AuthorizePostInbox(context.Background(), w, act2)
	if n := len(app.blockedArgs); n == 2 && app.blockedArgs[1][0] == "<nil>" {
		t.Errorf("F4 (C11 face) reproduced: Blocked was handed a nil IRI")
	}
}

// F17 (C16): a Block whose application hook (SocialWrappedCallbacks.Block) returns one of the resolver's
// "unmatched" errors was treated as "no callback ran": PostOutbox reported it deliverable.
func TestKnownFinding_F17(t *testing.T) {
	app, sea, _ := kfSetup()
	app.social = SocialWrappedCallbacks{Block: func(c context.Context, b vocab.ActivityStreamsBlock) error {
		return streams.ErrNoCallbackMatch
	}}
	blk := kfMustType(t, `{"@context":"https://www.w3.org/ns/activitystreams","type":"Block","id":"https://local.example/b/1","actor":"https://local.example/me","object":"https://p.example/troll","to":"https://p.example/troll"}`).(Activity)
	deliverable, err := sea.PostOutbox(context.Background(), blk, kfURL("https://local.example/me/outbox"), nil)
	if err != nil {
		t.Fatal(err)
	}
	if deliverable {
		t.Fatalf("a Block was reported deliverable by PostOutbox (it would be sent to the blocked actor)")
	}
}

// F12 (C16): an Update whose object supplies a member as JSON null must remove that member from the stored
// object and leave the members it does not supply alone. The null deletion read the nulls from the activity's
// top level instead of from the supplied object.
func TestKnownFinding_F12(t *testing.T) {
	app, sea, _ := kfSetup()
	stored := kfMustType(t, `{"@context":"https://www.w3.org/ns/activitystreams","type":"Note","id":"https://local.example/n/1","summary":"old summary","name":"the name","content":"old"}`)
	app.db.values["https://local.example/n/1"] = stored
	raw := map[string]interface{}{}
	js := `{"@context":"https://www.w3.org/ns/activitystreams","type":"Update","id":"https://local.example/u/1","actor":"https://local.example/me","name":null,"object":{"type":"Note","id":"https://local.example/n/1","summary":null,"content":"new"}}`
	if err := json.Unmarshal([]byte(js), &raw); err != nil {
		t.Fatal(err)
	}
	upd := kfMustType(t, js).(Activity)
	if _, err := sea.PostOutbox(context.Background(), upd, kfURL("https://local.example/me/outbox"), raw); err != nil {
		t.Fatal(err)
	}
	if len(app.db.updated) != 1 {
		t.Fatalf("want one Database.Update, got %d", len(app.db.updated))
	}
	m, err := streams.Serialize(app.db.updated[0])
	if err != nil {
		t.Fatal(err)
	}
	if _, ok := m["summary"]; ok {
		t.Errorf("member supplied as JSON null in the object was not removed: summary=%v", m["summary"])
	}
	if m["name"] != "the name" {
		t.Errorf("member not supplied in the object was changed: name=%v (a null on the Update activity itself deleted it)", m["name"])
	}
	if m["content"] != "new" {
		t.Errorf("supplied member not replaced: content=%v", m["content"])
	}
}

// F18 (C02): a recipient that cannot be fetched must be skipped without failing the delivery. resolveActors
// keeps the fetch error of the LAST recipient in its named result and returns it.
func TestKnownFinding_F18(t *testing.T) {
	app, sea, _ := kfSetup()
	app.tp.docs["https://p.example/good"] = `{"@context":"https://www.w3.org/ns/activitystreams","type":"Person","id":"https://p.example/good","inbox":"https://p.example/good/inbox"}`
	// https://p.example/gone is not served: Dereference fails
	app.db.values["https://local.example/actor"] = kfMustType(t, `{"@context":"https://www.w3.org/ns/activitystreams","type":"Person","id":"https://local.example/actor","inbox":"https://local.example/actor/inbox"}`)
	note := kfMustType(t, `{"@context":"https://www.w3.org/ns/activitystreams","type":"Create","id":"https://local.example/c/1","actor":"https://local.example/actor","to":["https://p.example/good","https://p.example/gone"],"object":{"type":"Note","id":"https://local.example/n/9","content":"x"}}`).(Activity)
	err := sea.Deliver(context.Background(), kfURL("https://local.example/actor/outbox"), note)
	if err != nil {
		t.Fatalf("delivery failed because one recipient could not be fetched: %v", err)
	}
	if len(app.tp.delivered) != 1 || len(app.tp.delivered[0]) != 1 || app.tp.delivered[0][0] != "https://p.example/good/inbox" {
		t.Fatalf("delivered to %v, want exactly [[https://p.example/good/inbox]]", app.tp.delivered)
	}
}
