#!/bin/sh
# commit_hooks.sh "<message>": commits /repo/pub/verif_contracts.go (and other guarded contract files given
# as extra args) as a separate "verif:" commit and records its hash in MANIFEST.hooks.source_commits.
set -e
msg="$1"; shift
cd /repo
git add pub/verif_contracts.go "$@"
git commit -q -m "verif: $msg (comment-only, tag verif)"
h=$(git rev-parse --short HEAD)
python3 - "$h" <<'PY'
import json,sys
p='/verif/MANIFEST.json'; m=json.load(open(p))
if sys.argv[1] not in m['hooks']['source_commits']:
    m['hooks']['source_commits'].append(sys.argv[1])
json.dump(m,open(p,'w'),indent=1)
PY
echo "committed $h"
