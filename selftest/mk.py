#!/usr/bin/env python3
"""mk.py <name> <property> <expect-regexp> <repo-relative-file> <old> <new> [what]
creates mutants/<name>.patch and mutants/<name>.json from a textual replacement (must match once)."""
import sys, os, subprocess, tempfile, json
name, prop, expect, rel, old, new = sys.argv[1:7]
what = sys.argv[7] if len(sys.argv) > 7 else ""
src = open(os.path.join("/repo", rel)).read()
assert src.count(old) == 1, "old text must match exactly once, matched %d" % src.count(old)
d = tempfile.mkdtemp()
a = os.path.join(d, "a", rel); b = os.path.join(d, "b", rel)
os.makedirs(os.path.dirname(a)); os.makedirs(os.path.dirname(b))
open(a, "w").write(src); open(b, "w").write(src.replace(old, new))
p = subprocess.run(["diff", "-u", "a/" + rel, "b/" + rel], cwd=d, stdout=subprocess.PIPE, text=True)
here = os.path.dirname(os.path.abspath(__file__))
open(os.path.join(here, "mutants", name + ".patch"), "w").write(p.stdout)
json.dump(dict(property=prop, expect=expect, what=what, file=rel), open(os.path.join(here, "mutants", name + ".json"), "w"), indent=1)
print("wrote", name)
