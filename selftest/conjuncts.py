#!/usr/bin/env python3
"""conjuncts.py <dumped _obN.smt2>: for a failing obligation whose goal is (not (and c1 .. cn)) (possibly under =>),
report which conjuncts z3-new cannot prove (debugging aid for contract authors)."""
import sys, subprocess, re, tempfile, os
f = sys.argv[1]
L = open(f).read().split("\n")
gi = max(i for i, l in enumerate(L) if l.startswith("(assert (not "))
goal = L[gi][len("(assert (not "):-2]
def split_top(s):
    # s = "(op a b c)" -> op, [a,b,c]
    assert s[0] == "("
    body = s[1:-1]; parts = []; d = 0; st = 0; instr = False
    for i, c in enumerate(body):
        if c == '"': instr = not instr
        if instr: continue
        if c == "(": d += 1
        elif c == ")": d -= 1
        elif c == " " and d == 0:
            parts.append(body[st:i]); st = i + 1
    parts.append(body[st:])
    return parts[0], parts[1:]
def conj(s):
    if s.startswith("(and "):
        op, args = split_top(s)
        out = []
        for a in args: out += conj(a)
        return out
    return [s]
pre = []
g = goal
while g.startswith("(=> "):
    op, args = split_top(g)
    pre.append(args[0]); g = args[1]
cs = conj(g)
print("%d conjuncts, %d premises" % (len(cs), len(pre)))
for k, c in enumerate(cs):
    M = L[:gi] + ["(assert %s)" % p for p in pre] + ["(assert (not %s))" % c] + L[gi + 1:]
    t = tempfile.NamedTemporaryFile("w", suffix=".smt2", delete=False); t.write("\n".join(M)); t.close()
    r = subprocess.run(["z3-new", "-T:20", t.name], stdout=subprocess.PIPE, text=True).stdout
    os.unlink(t.name)
    v = [x for x in r.split("\n") if x in ("sat", "unsat", "unknown")]
    print(k, v[0] if v else "timeout", c[:260])
