"""Must-fail corpus runner: every mutant must make a named obligation fail.

A mutant is /verif/selftest/mutants/<name>.patch plus <name>.json:
  {"property": "C09", "expect": "<regexp over failing obligation ids>", "what": "..."}
Each is applied to a scratch copy of /repo (outside /repo and /verif), checked, and removed.
"""
import json, os, re, shutil, subprocess, sys, tempfile, glob

VERIF = os.path.dirname(os.path.dirname(os.path.abspath(__file__)))


def scratch_copy():
    d = tempfile.mkdtemp(prefix="verif_mut_", dir=os.environ.get("VERIF_SCRATCH", "/root"))
    dst = os.path.join(d, "repo")
    subprocess.check_call(["rsync", "-a", "--exclude", ".git", "/repo/", dst + "/"])
    return d, dst


def main(args, decide_fn, props):
    muts = sorted(glob.glob(os.path.join(VERIF, "selftest", "mutants", "*.json")))
    seeded = sorted(glob.glob(os.path.join(VERIF, "seeded", "*", "meta.json")))
    bad = 0
    n = 0
    done = set()
    if os.environ.get("VERIF_SELFTEST_SKIP") and os.path.exists(os.environ["VERIF_SELFTEST_SKIP"]):
        for l in open(os.environ["VERIF_SELFTEST_SKIP"]):
            ps = l.split()
            if len(ps) >= 2 and ps[0] in ("CAUGHT", "QUIET"):
                done.add(ps[1])
    for mj in muts + seeded:
        nm = os.path.basename(mj)[:-5] if not mj.endswith("meta.json") else "seeded/" + os.path.basename(os.path.dirname(mj))
        if nm in done:
            continue
        meta = json.load(open(mj))
        prop = meta.get("property") or meta.get("breaks")
        if args and prop not in args and os.path.basename(os.path.dirname(mj)) not in args and os.path.basename(mj)[:-5] not in args:
            continue
        if prop not in props:
            print("SKIP %s (property %s not claimed)" % (mj, prop))
            continue
        patch = mj[:-5] + ".patch" if mj.endswith(".json") and not mj.endswith("meta.json") else os.path.join(os.path.dirname(mj), "patch.diff")
        d, dst = scratch_copy()
        try:
            p = subprocess.run(["patch", "-p1", "-s", "-i", patch], cwd=dst, stdout=subprocess.PIPE, stderr=subprocess.STDOUT, text=True)
            if p.returncode != 0:
                print("MUTANT-DOES-NOT-APPLY %s: %s" % (patch, p.stdout[-300:]))
                bad += 1
                continue
            touched = sorted(set("./" + os.path.dirname(l[6:].strip().split("\t")[0]) for l in open(patch) if l.startswith("+++ b/") and l[6:].strip().split("\t")[0].endswith(".go")))
            only = touched if prop in ("C11", "C12", "C13", "C18") and touched and all(t.startswith("./streams") for t in touched) else None
            rc, lines, rep = decide_fn(prop, "quick", repo=dst, write_evidence=False, quiet=True, only_pkgs=only)
            viol = [l for l in lines if l.startswith("VIOLATION")]
            exp = meta.get("expect", "")
            ok = rc == 1 and any(re.search(exp, l) for l in viol)
            n += 1
            if meta.get("expect_pass"):
                if rc == 0 and not viol:
                    print("QUIET  %-40s (benign change, no alarm)" % os.path.basename(mj)[:-5])
                else:
                    bad += 1
                    print("FALSE-ALARM %-40s %s" % (os.path.basename(mj)[:-5], "; ".join(v.split("obligation=")[-1][:90] for v in viol[:4])))
                continue
            name = os.path.basename(mj)[:-5] if not mj.endswith("meta.json") else "seeded/" + os.path.basename(os.path.dirname(mj))
            if ok and meta.get("expect_input") and not any(re.search(exp, l) and "failing-input:" in l and re.search(meta["expect_input"], l) for l in viol):
                bad += 1
                print("NO-REPLAYED-INPUT %-30s caught, but the counterexample /%s/ was not confirmed on the real code" % (name, meta["expect_input"]))
            elif ok:
                hit = [l for l in viol if re.search(exp, l)][0]
                print("CAUGHT %-40s %s%s" % (name, hit.split("obligation=")[1].split(" ")[0], "  [input replayed on the real code]" if "failing-input:" in hit else ""))
            else:
                bad += 1
                print("MISSED %-40s expected /%s/ got %d violations: %s" % (name, exp, len(viol), "; ".join(v.split("obligation=")[-1][:90] for v in viol[:4])))
        finally:
            shutil.rmtree(d, ignore_errors=True)
    print("selftest: %d mutants, %d not caught" % (n, bad))
    return 1 if bad else 0
