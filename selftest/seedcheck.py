#!/usr/bin/env python3
"""seedcheck.py <property> <seed-dir> <name>
Confirms a seeded change (patch.diff, demo_test.go, meta.json produced by an independent agent) in a
scratch copy of /repo: it applies, builds, leaves the existing test results unchanged, its demo fails
with it and passes without it. Then runs ./check <property> against the patched copy and stores the
seed under /verif/seeded/<name>/ with what was observed."""
import json, os, re, shutil, subprocess, sys, tempfile
ENV = dict(os.environ, GOFLAGS="-mod=mod", GOPROXY="off", GOSUMDB="off", GOTOOLCHAIN="local")
prop, sdir, name = sys.argv[1:4]
VERIF = "/verif"

def sh(cmd, cwd, timeout=900):
    p = subprocess.run(cmd, cwd=cwd, env=ENV, shell=True, stdout=subprocess.PIPE, stderr=subprocess.STDOUT, text=True, timeout=timeout)
    return p.returncode, p.stdout

def failing(out):
    return sorted(set(re.findall(r"^\s*--- FAIL: (\S+)", out, re.M)))

d = tempfile.mkdtemp(prefix="seedchk_", dir="/root")
dst = os.path.join(d, "repo")
try:
    subprocess.check_call(["rsync", "-a", "--exclude", ".git", "/repo/", dst + "/"])
    pd = open(os.path.join(sdir, "patch.diff")).read()
    pkg = "./pub" if "a/pub/" in pd else "./streams/... ./astool/..."
    rc, base = sh("go test -vet=off -count=1 %s 2>&1" % pkg, dst)
    base_fail = failing(base)
    rc, out = sh("patch -p1 -s < %s" % os.path.join(sdir, "patch.diff"), dst)
    assert rc == 0, "patch does not apply: " + out
    rc, out = sh("go build ./... 2>&1", dst)
    assert rc == 0, "does not build: " + out[-500:]
    rc, out = sh("go test -vet=off -count=1 %s 2>&1" % pkg, dst)
    with_fail = failing(out)
    tests_same = with_fail == base_fail
    demo_dst = os.path.join(dst, "pub", "zz_seed_demo_test.go")
    demo_src = os.path.join(sdir, "demo_test.go")
    pkgdir = "pub"
    m = re.search(r"^package (\w+)", open(demo_src).read(), re.M)
    if m and m.group(1) not in ("pub",):
        pkgdir = {"streams": "streams"}.get(m.group(1), "pub")
        demo_dst = os.path.join(dst, pkgdir, "zz_seed_demo_test.go")
    shutil.copy(demo_src, demo_dst)
    rc_with, out_with = sh("go test -vet=off -count=1 -timeout 180s -run TestSeedDemo ./%s 2>&1" % pkgdir, dst)
    # the checks, on the patched tree (demo removed first)
    os.remove(demo_dst)
    sys.path.insert(0, VERIF)
    rc_chk, out_chk = sh("VERIF_REPO=%s python3 %s/check %s 2>&1" % (dst, VERIF, prop), VERIF)
    viol = [l for l in out_chk.splitlines() if l.startswith("VIOLATION")]
    # without the patch
    sh("patch -p1 -R -s < %s" % os.path.join(sdir, "patch.diff"), dst)
    shutil.copy(demo_src, demo_dst)
    rc_wo, out_wo = sh("go test -vet=off -count=1 -timeout 180s -run TestSeedDemo ./%s 2>&1" % pkgdir, dst)
    ok = tests_same and rc_with != 0 and rc_wo == 0
    print("seed %s: tests_unchanged=%s demo_fails_with=%s demo_passes_without=%s -> %s" % (name, tests_same, rc_with != 0, rc_wo == 0, "CONFIRMED" if ok else "REJECTED"))
    if not tests_same:
        print("  new failing tests:", sorted(set(with_fail) - set(base_fail)))
    print("  check %s: rc=%d, %d violation line(s)" % (prop, rc_chk, len(viol)))
    for v in viol[:6]:
        print("   ", v[:260])
    if ok:
        out_dir = os.path.join(VERIF, "seeded", name)
        os.makedirs(out_dir, exist_ok=True)
        shutil.copy(os.path.join(sdir, "patch.diff"), os.path.join(out_dir, "patch.diff"))
        shutil.copy(demo_src, os.path.join(out_dir, "demo_test.go"))
        meta = json.load(open(os.path.join(sdir, "meta.json")))
        meta["breaks"] = prop
        meta["confirmed"] = dict(existing_tests_unchanged=tests_same, demo_fails_with_patch=True, demo_passes_without_patch=True,
                                 commands=["rsync copy of /repo", "patch -p1 < patch.diff", "go build ./...", "go test -vet=off -count=1 " + pkg,
                                           "go test -run TestSeedDemo ./" + pkgdir + " (with and without the patch)"])
        meta["check_result"] = dict(caught=bool(viol), violations=[v.split("obligation=")[-1].split(" ")[0] for v in viol][:10])
        if viol:
            meta["expect"] = re.escape(viol[0].split("obligation=")[-1].split(" ")[0].split("/")[1])
        json.dump(meta, open(os.path.join(out_dir, "meta.json"), "w"), indent=1)
finally:
    shutil.rmtree(d, ignore_errors=True)
