#!/bin/bash
# run every claimed check in the thorough tier, one after the other (never concurrently: see DESIGN 8.4)
cd /verif
bad=0
for p in $(python3 -c "import json;print(' '.join(c['property_id'] for c in json.load(open('MANIFEST.json'))['checks']))"); do
  t0=$(date +%s)
  out=$(./check $p --tier thorough 2>&1); rc=$?
  echo "$out" | tail -1 | cut -c1-170; echo "   rc=$rc wall=$(( $(date +%s) - t0 ))s"
  if [ $rc -ne 0 ]; then bad=1; echo "$out" | grep VIOLATION | cut -c1-250 | head -5; fi
done
exit $bad
