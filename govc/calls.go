package main

import (
	"regexp"
	"sort"
	"fmt"
	"go/token"
	"go/types"
	"strings"

	"golang.org/x/tools/go/ssa"
)

type callee struct {
	name    string // stable display name (calleeName)
	c       *Contract
	ckey    string // key under which the contract was found
	fn      *ssa.Function
	sig     *types.Signature
	pnames  []string
	args    []Term
	clo     *closureInfo
	isIface bool
	recvT   types.Type
	assumesDone bool
	skipRecv string // receiver parameter whose requires are established at bind/construction time
	fnval    *Term  // dynamic calls: the func value being called ($fn in its contract)
}

// lookupIfaceContract finds the contract for an interface method.
func (vc *FuncVC) lookupIfaceContract(recvT types.Type, m *types.Func) (*Contract, string) {
	sp := vc.eng.specs
	tn := normType(recvT)
	k := "iface " + tn + "." + m.Name()
	if c, ok := sp.Contracts[k]; ok {
		return c, k
	}
	// declaring interface of the method
	if sig, ok := m.Type().(*types.Signature); ok && sig.Recv() != nil {
		dn := normType(sig.Recv().Type())
		k2 := "iface " + dn + "." + m.Name()
		if c, ok := sp.Contracts[k2]; ok {
			return c, k2
		}
		if c := sp.schemaFor(dn + "." + m.Name()); c != nil {
			return c, "schema " + c.Key
		}
	}
	// embedded interfaces that declare the method
	if it, ok := recvT.Underlying().(*types.Interface); ok {
		for i := 0; i < it.NumEmbeddeds(); i++ {
			et := it.EmbeddedType(i)
			if eit, ok := et.Underlying().(*types.Interface); ok {
				for j := 0; j < eit.NumMethods(); j++ {
					if eit.Method(j).Name() == m.Name() {
						if c, kk := vc.lookupIfaceContract(et, m); c != nil {
							return c, kk
						}
					}
				}
			}
		}
	}
	if c := sp.schemaFor(tn + "." + m.Name()); c != nil {
		return c, "schema " + c.Key
	}
	return nil, ""
}

// devirtualize: resolve interface calls on receivers of statically known concrete type (flag -devirt)
var devirtualize bool
var mkILit = regexp.MustCompile(`^\(mkI (\d+) (.+)\)$`)

func (vc *FuncVC) execCall(s *State, cc *ssa.CallCommon, site ssa.Instruction, pos token.Pos) []Term {
	ord := vc.cur.callOrd[site]
	name := vc.cur.callKeyOf[site]
	if name == "" {
		name = vc.calleeName(cc)
	}
	var args []Term
	for _, a := range cc.Args {
		args = append(args, vc.val(s, a))
	}
	if cc.IsInvoke() {
		recv := vc.val(s, cc.Value)
		vc.safety(s, "safe.nil", "invoke:"+vc.describe(cc.Value)+"."+cc.Method.Name(), pos, not(eq(recv, T("Iface", "(mkI 0 0)"))))
		if devirtualize {
			// the receiver was converted from a known concrete repository type in this very function (after
			// inlining): the call goes to that type's own method, not to the interface's assumed contract
			if m := mkILit.FindStringSubmatch(recv.S); m != nil {
				var tag int
				fmt.Sscanf(m[1], "%d", &tag)
				if tag >= 1 && tag <= len(vc.ss.tagTypes) {
					ct := vc.ss.tagTypes[tag-1]
					sel := vc.eng.prog.MethodSets.MethodSet(ct).Lookup(cc.Method.Pkg(), cc.Method.Name())
					if sel != nil {
						pl := T(vc.ss.sortOf(ct), m[2])
						pl.GoT = ct
						recvArg := pl
						mf := sel.Obj().(*types.Func)
						rt := mf.Type().(*types.Signature).Recv().Type()
						var fn *ssa.Function
						if pt, isPtr := ct.(*types.Pointer); isPtr {
							if _, recvIsPtr := rt.(*types.Pointer); !recvIsPtr && isStruct(pt.Elem()) {
								// value-receiver method reached through a pointer: the method itself, on the struct read from the heap
								if vsel := vc.eng.prog.MethodSets.MethodSet(pt.Elem()).Lookup(cc.Method.Pkg(), cc.Method.Name()); vsel != nil {
									fn = vc.eng.prog.MethodValue(vsel)
									vc.safety(s, "safe.nil", "devirt:"+vc.describe(cc.Value)+"."+cc.Method.Name(), pos, not(eq(pl, T("Int", "0"))))
									recvArg = vc.loadStructFromHeap(s, pl, pt.Elem())
									recvArg.GoT = pt.Elem()
								}
							} else {
								fn = vc.eng.prog.MethodValue(sel)
							}
						}
						if fn != nil && fn.Blocks != nil && fn.Pkg != nil && strings.HasPrefix(fn.Pkg.Pkg.Path(), modPrefix) {
							return vc.callStatic(s, fn, nil, append([]Term{recvArg}, args...), name, ord, site, pos)
						}
					}
				}
			}
		}
		c, ckey := vc.lookupIfaceContract(cc.Value.Type(), cc.Method)
		sig := cc.Method.Type().(*types.Signature)
		pn := []string{"this"}
		for i := 0; i < sig.Params().Len(); i++ {
			pn = append(pn, sig.Params().At(i).Name())
		}
		recv.GoT = cc.Value.Type()
		cl := &callee{name: name, c: c, ckey: ckey, sig: sig, pnames: pn, args: append([]Term{recv}, args...), isIface: true, recvT: cc.Value.Type()}
		vc.resolveSatisfies(cl)
		return vc.applyContract(s, cl, ord, site, pos)
	}
	switch f := cc.Value.(type) {
	case *ssa.Builtin:
		return vc.builtin(s, f, cc, args, pos)
	case *ssa.Function:
		return vc.callStatic(s, f, nil, args, name, ord, site, pos)
	case *ssa.MakeClosure:
		t := vc.val(s, f)
		return vc.callStatic(s, f.Fn.(*ssa.Function), vc.closures[t.S], args, name, ord, site, pos)
	}
	// dynamic call through a func value
	fv := vc.val(s, cc.Value)
	vc.safety(s, "safe.call", "call:"+vc.describe(cc.Value), pos, not(eq(fv, T("Int", "0"))))
	if ci, ok := vc.closures[fv.S]; ok {
		return vc.callStatic(s, ci.fn, ci, args, name, ord, site, pos)
	}
	// field contract?
	sig := cc.Signature()
	if fk := vc.fieldKeyOf(cc.Value); fk != "" {
		fc, ok := vc.eng.specs.Contracts["field "+fk]
		if !ok {
			if sc := vc.eng.specs.schemaFor("field " + fk); sc != nil {
				fc, ok = sc, true
			}
		}
		if ok {
			pn := []string{}
			for i := 0; i < sig.Params().Len(); i++ {
				pn = append(pn, sig.Params().At(i).Name())
			}
			cl := &callee{name: name, c: fc, ckey: "field " + fk, sig: sig, pnames: pn, args: args}
			if fc.Satisfies != "" {
				target := vc.eng.fnByKey[fc.Satisfies]
				tc := vc.eng.specs.Contracts[fc.Satisfies]
				if target == nil || tc == nil {
					vc.specErrors = append(vc.specErrors, "field "+fk+" satisfies unknown "+fc.Satisfies)
				} else {
					// bound method value: receiver unknown here; its requires are established where the field is set
					pn = nil
					for _, p := range target.Params {
						pn = append(pn, p.Name())
					}
					recv := vc.freshConst("boundrecv", vc.ss.sortOf(target.Params[0].Type()))
					recv.GoT = target.Params[0].Type()
					cl = &callee{name: name, c: tc, ckey: fc.Satisfies, fn: target, sig: sig, pnames: pn, args: append([]Term{recv}, args...), skipRecv: target.Params[0].Name()}
					vc.assumedUsed["field "+fk+" holds a bound "+fc.Satisfies+" whose receiver satisfies its receiver-only preconditions (bind site)"] = true
					vc.usedContracts[fc.Satisfies] = true
				}
			}
			return vc.applyContract(s, cl, ord, site, pos)
		}
	}
	// default: application-supplied function value
	var c *Contract
	ckey := ""
	if dc, ok := vc.eng.specs.Contracts["dyncall "+vc.key+"."+vc.dynName(cc.Value)]; ok {
		c, ckey = dc, "dyncall "+vc.key+"."+vc.dynName(cc.Value)
		if dc.Satisfies != "" { // "dyncall f.x satisfies <shared dyncall contract>"
			if tc, ok := vc.eng.specs.Contracts["dyncall "+dc.Satisfies]; ok {
				c, ckey = tc, "dyncall "+dc.Satisfies
			} else {
				vc.specErrors = append(vc.specErrors, ckey+" satisfies unknown dyncall "+dc.Satisfies)
			}
		}
	} else if dc, ok := vc.eng.specs.Contracts["dyncall "+vc.key+".*"]; ok && dc.Satisfies != "" && vc.eng.specs.Contracts["dyncall "+dc.Satisfies] != nil {
		// "dyncall f.* satisfies X": every call of a func value in f not named otherwise
		c, ckey = vc.eng.specs.Contracts["dyncall "+dc.Satisfies], "dyncall "+dc.Satisfies
	} else if dc, ok := vc.eng.specs.Contracts["dyncall default"]; ok {
		c, ckey = dc, "dyncall default"
	}
	pn := []string{}
	for i := 0; i < sig.Params().Len(); i++ {
		pn = append(pn, fmt.Sprintf("arg%d", i))
	}
	cl := &callee{name: name, c: c, ckey: ckey, sig: sig, pnames: pn, args: args, fnval: &fv}
	return vc.applyContract(s, cl, ord, site, pos)
}

// fieldKeyOf returns "pkg.Type.field" if v was loaded from a struct field.
func (vc *FuncVC) fieldKeyOf(v ssa.Value) string {
	switch x := v.(type) {
	case *ssa.UnOp:
		return vc.fieldKeyOf(x.X)
	case *ssa.FieldAddr:
		pt := x.X.Type().Underlying().(*types.Pointer).Elem()
		st := pt.Underlying().(*types.Struct)
		return normType(pt) + "." + st.Field(x.Field).Name()
	case *ssa.Field:
		st := x.X.Type().Underlying().(*types.Struct)
		return normType(x.X.Type()) + "." + st.Field(x.Field).Name()
	}
	return ""
}

func (vc *FuncVC) callStatic(s *State, f *ssa.Function, ci *closureInfo, args []Term, name string, ord int, site ssa.Instruction, pos token.Pos) []Term {
	key := fnKey(f)
	c := vc.eng.specs.Contracts[key]
	if c == nil {
		c = vc.eng.specs.schemaFor(key)
	}
	var pn []string
	for _, p := range f.Params {
		pn = append(pn, p.Name())
	}
	if f.Name() == "callbacks" && len(args) == 2 && f.Signature.Recv() != nil {
		rt := f.Signature.Recv().Type()
		r := args[0]
		r.GoT = rt
		vc.lastCallbacks = &callbacksSite{recvT: rt, recv: r, other: args[1]}
	}
	if ci != nil && strings.HasSuffix(f.Name(), "$bound") {
		// bound method closure: the receiver is the single binding
		inner := vc.eng.boundTarget(f)
		if inner != nil {
			key = fnKey(inner)
			c = vc.eng.specs.Contracts[key]
			pn = nil
			for _, p := range inner.Params {
				pn = append(pn, p.Name())
			}
			args = append(append([]Term{}, ci.bindings...), args...)
			f = inner
			ci = nil
		}
	}
	cl := &callee{name: name, c: c, ckey: key, fn: f, sig: f.Signature, pnames: pn, args: args, clo: ci}
	if c == nil && vc.canInline(f) {
		return vc.inlineCall(s, f, ci, args, name, pos)
	}
	if c != nil && c.Dispatch != "" {
		return vc.dispatch(s, cl, ord, site, pos)
	}
	vc.siteAssumes(s, cl, ord, pos)
	cl.assumesDone = true
	if key == fnKey(vc.fn) || (c != nil && c.Dec != nil && c.Dec.active(vc.prop) && vc.sameRecursionGroup(f)) {
		vc.recursionCheck(s, cl, pos, ord)
	}
	return vc.applyContract(s, cl, ord, site, pos)
}

func (vc *FuncVC) sameRecursionGroup(f *ssa.Function) bool { return f == vc.fn }

func (vc *FuncVC) recursionCheck(s *State, cl *callee, pos token.Pos, ord int) {
	if vc.c == nil || vc.c.Dec == nil || !vc.c.Dec.active(vc.prop) {
		if vc.prop == "C11" {
			vc.oblige("dec", fmt.Sprintf("dec:recursive-call#%d", ord), "(no decreases clause given)", pos, s.pc, tFalse)
		}
		return
	}
	// measure at entry
	e0 := vc.newEnv(vc.entry, vc.entry, vc.fn.Pos())
	for k, v := range vc.params {
		e0.vars[k] = v
	}
	d0 := vc.tr(e0, vc.c.Dec.E)
	e1 := vc.newEnv(s, s, pos)
	for i, n := range cl.pnames {
		if i < len(cl.args) {
			e1.vars[n] = cl.args[i]
		}
	}
	for i, n := range vc.c.Params {
		if i < len(cl.args) && n != "" {
			e1.vars[n] = cl.args[i]
		}
	}
	d1 := vc.tr(e1, vc.c.Dec.E)
	vc.oblige("dec", fmt.Sprintf("dec:recursive-call#%d", ord), vc.c.Dec.Src, pos, s.pc, and(app("Bool", "<", d1, d0), app("Bool", ">=", d0, intLit(0))))
}

// applyContract: assert requires, havoc modifies, assume ensures.
func (vc *FuncVC) applyContract(s *State, cl *callee, ord int, site ssa.Instruction, pos token.Pos) []Term {
	sig := cl.sig
	nres := sig.Results().Len()
	mkResults := func() []Term {
		var res []Term
		for i := 0; i < nres; i++ {
			rt := sig.Results().At(i).Type()
			t := vc.freshConst("r_"+lastSeg(cl.name), vc.ss.sortOf(rt))
			t.GoT = rt
			vc.typeFacts(s.pc, t, rt)

			res = append(res, t)
		}
		return res
	}
	if !cl.assumesDone {
		cl.assumesDone = true
		vc.siteAssumes(s, cl, ord, pos)
	}
	siteKey := fmt.Sprintf("call %s#%d", cl.name, ord)
	var ss *SiteSpec
	if vc.cur.c != nil {
		// every clause group that names this call applies: by full callee name or a dot/slash-boundary suffix of
		// it ("call Database.SetInbox#1"), for this ordinal or for every ordinal ("#*"), or a callee wildcard ("dyn.*")
		var keys []string
		for k := range vc.cur.c.Sites {
			short, ok := siteShort(k, ord)
			if !ok {
				continue
			}
			if short == cl.name || strings.HasSuffix(cl.name, "."+short) || strings.HasSuffix(cl.name, "/"+short) || (strings.HasSuffix(short, ".*") && strings.HasPrefix(cl.name, strings.TrimSuffix(short, "*"))) {
				keys = append(keys, k)
			}
		}
		sort.Strings(keys)
		if len(keys) == 1 {
			ss, siteKey = vc.cur.c.Sites[keys[0]], keys[0]
		} else if len(keys) > 1 {
			m := &SiteSpec{Site: vc.cur.c.Sites[keys[0]].Site}
			for _, k := range keys {
				w := vc.cur.c.Sites[k]
				vc.sitesUsed[k] = true
				m.Asserts = append(m.Asserts, w.Asserts...)
				m.Assumes = append(m.Assumes, w.Assumes...)
				m.Ghost = append(m.Ghost, w.Ghost...)
			}
			ss = m
			if _, ok := vc.cur.c.Sites[siteKey]; !ok {
				siteKey = keys[0]
			}
		}
		if ss != nil {
			vc.sitesUsed[siteKey] = true
		}
	}
	c := cl.c
	if c == nil && vc.defaultExternal(cl) {
		// unspecified function outside the repository whose receiver type has no ghost model: its
		// results are arbitrary and it may write only through its pointer / slice arguments
		vc.assumedUsed["unspecified external call "+cl.name+": results arbitrary; writes only what its arguments point to; no effect on ghost state"] = true
		for _, a := range cl.args {
			switch {
			case a.Sort == "Slice" && a.GoT != nil:
				if st, ok := a.GoT.Underlying().(*types.Slice); ok {
					es := vc.ss.sortOf(st.Elem())
					is := "(Array Int " + es + ")"
					hs := "(Array Int " + is + ")"
					h := vc.get(s, "A:"+es, hs)
					nv := vc.freshConst("ext_arr", is)
					vc.set(s, "A:"+es, T(hs, fmt.Sprintf("(store %s (s!arr %s) %s)", h.S, a.S, nv.S)))
					vc.noteWrite("A:" + es)
				}
			case a.Sort == "Int" && a.GoT != nil:
				if pt, ok := a.GoT.Underlying().(*types.Pointer); ok && !isStruct(pt.Elem()) && !isArray(pt.Elem()) {
					es := vc.ss.sortOf(pt.Elem())
					hs := "(Array Int " + es + ")"
					h := vc.get(s, "C:"+es, hs)
					nv := vc.freshConst("ext_cell", es)
					vc.set(s, "C:"+es, app(hs, "store", h, a, nv))
					vc.noteWrite("C:" + es)
				}
			}
		}
		res := mkResults()
		vc.siteClauses(s, nil, ss, siteKey, cl, res, pos)
		return res
	}
	if c == nil {
		// no contract: reported as an undischargeable obligation (never counted as proved); the call is
		// then treated as effect-free so that one missing contract gives one report, not a cascade.
		if !vc.uncontracted[cl.name] && !vc.dry {
			ob := vc.oblige("nocontract", fmt.Sprintf("nocontract:%s", cl.name), "callee has no contract", pos, s.pc, tFalse)
			ob.Verdict = "no-contract"
		}
		vc.uncontracted[cl.name] = true
		res := mkResults()
		vc.siteClauses(s, nil, ss, siteKey, cl, res, pos)
		return res
	}
	if c.External || c.Kind == "schema" {
		vc.assumedUsed[cl.ckey] = true
	} else if c.Kind == "func" {
		vc.usedContracts[cl.ckey] = true
	}
	e := vc.newEnv(s, s, pos)
	for i, n := range cl.pnames {
		if i < len(cl.args) && n != "" && n != "_" {
			e.vars[n] = cl.args[i]
		}
	}
	if len(c.Params) > 0 {
		for i, n := range c.Params {
			if i < len(cl.args) {
				e.vars[n] = cl.args[i]
			}
		}
	}
	if cl.clo != nil && cl.fn != nil {
		vc.bindFreeVarsCaller(e, s, cl.fn, cl.clo)
	}
	vc.addCallVars(e, cl)
	for _, l := range c.Lets { // the callee's entry-state definitions, evaluated in the pre-call state
		t := vc.tr(e, l.E)
		got := t.GoT
		t = vc.nameTermMin(t, "let_"+l.Name, 40)
		t.GoT = got
		e.vars[l.Name] = t
	}
	mname := lastSeg(cl.name)
	e.vars["$method"] = strLit(mname)
	e.vars["$prop"] = strLit(strings.TrimPrefix(strings.TrimPrefix(mname, "Get"), "Set"))
	for i, r := range c.Req {
		if !r.active(vc.prop) {
			continue
		}
		if cl.skipRecv != "" && mentions(r.E, cl.skipRecv) {
			continue
		}
		f := vc.tr(e, r.E)
		vc.oblige("pre", fmt.Sprintf("pre:%s#%d.%s", cl.name, ord, clauseName(r, i)), r.Src, pos, s.pc, f)
	}
	// caller-side site assertions
	if ss != nil {
		for i, a := range ss.Asserts {
			if a.active(vc.prop) {
				ce := vc.callerEnv(s, pos)
				vc.addCallVars(ce, cl)
				vc.oblige("site", fmt.Sprintf("site:%s#%d.%s", cl.name, ord, clauseName(a, i)), a.Src, pos, s.pc, vc.tr(ce, a.E))
			}
		}
	}
	old := s.clone()
	var res []Term
	if c.Returns != nil && nres == 1 {
		er := vc.newEnv(s, s, pos)
		for k, v := range e.vars {
			er.vars[k] = v
		}
		t := vc.tr(er, c.Returns.E)
		rt := sig.Results().At(0).Type()
		if t.Sort == nilSort {
			t = vc.ss.zero(vc.ss.sortOf(rt))
		}
		t.GoT = rt
		vc.typeFacts(s.pc, t, rt)
		res = []Term{t}
	} else if c.Pure && nres >= 1 {
		fname := "m!" + smtIdent(lastSeg(cl.name))
		if !cl.isIface && cl.fn != nil {
			fname = "f!" + smtIdent(cl.ckey)
		}
		var as []Term
		var sorts []string
		for _, dep := range pureDeps(c) {
			ds := "Int"
			if gs, ok := vc.ghostSort(dep); ok {
				ds = gs
			}
			as = append(as, vc.get(s, "G:"+dep, ds))
			sorts = append(sorts, ds)
		}
		vc.eng.notePure(lastSeg(cl.name), c)
		for _, a := range cl.args {
			as = append(as, a)
			sorts = append(sorts, a.Sort)
		}
		for i := 0; i < nres; i++ {
			rt := sig.Results().At(i).Type()
			fn := fname
			if nres > 1 {
				fn = fmt.Sprintf("%s!%d", fname, i)
			}
			vc.eng.needFun(vc, fn, sorts, vc.ss.sortOf(rt))
			t := app(vc.ss.sortOf(rt), fn, as...)
			t.GoT = rt
			vc.typeFacts(s.pc, t, rt)
			res = append(res, t)
		}
	} else {
		res = mkResults()
	}
	// havoc (index expressions in "modifies g[e]" may mention results)
	eh := vc.newEnv(old, old, pos)
	for k, v := range e.vars {
		eh.vars[k] = v
	}
	vc.bindResults(eh, c, sig, res)
	for _, m := range c.Mods {
		vc.havocMod(s, eh, m)
	}
	e2 := vc.newEnv(s, old, pos)
	for k, v := range e.vars {
		e2.vars[k] = v
	}
	vc.bindResults(e2, c, sig, res)
	for _, en := range c.Ens {
		if !en.active(vc.prop) {
			continue
		}
		nerr := len(vc.specErrors)
		f := vc.tr(e2, en.E)
		if c.Kind == "schema" && len(vc.specErrors) > nerr {
			// a schema clause that does not apply to this instance (e.g. Len() on a functional property)
			vc.specErrors = vc.specErrors[:nerr]
			continue
		}
		vc.assume(s.pc, f)
	}
	// whatever a call returns was allocated at some point: a returned slice's backing array, a returned
	// pointer or map is not a reference that a later allocation can produce
	if vc.useQuantSlices {
		al := vc.get(s, "alloc", "(Array Int Bool)")
		for _, t := range res {
			if t.GoT == nil {
				continue
			}
			switch t.GoT.Underlying().(type) {
			case *types.Slice:
				vc.assume(s.pc, T("Bool", fmt.Sprintf("(or (= (s!arr %s) 0) (select %s (s!arr %s)))", t.S, al.S, t.S)))
			}
		}
	}
	vc.siteClauses(s, old, ss, siteKey, cl, res, pos)
	return res
}

func (vc *FuncVC) addCallVars(e *env, cl *callee) {
	for i, a := range cl.args {
		e.vars[fmt.Sprintf("$arg%d", i)] = a
	}
	if cl.fnval != nil {
		e.vars["$fn"] = *cl.fnval
	}
}

// siteAssumes applies "at call X#n: assume! ..." before the callee's preconditions are checked.
func (vc *FuncVC) siteAssumes(s *State, cl *callee, ord int, pos token.Pos) {
	if vc.cur.c == nil {
		return
	}
	for k, ss := range vc.cur.c.Sites {
		short, ok := siteShort(k, ord)
		if !ok {
			continue
		}
		if short != cl.name && !strings.HasSuffix(cl.name, "."+short) && !strings.HasSuffix(cl.name, "/"+short) && !(strings.HasSuffix(short, ".*") && strings.HasPrefix(cl.name, strings.TrimSuffix(short, "*"))) {
			continue
		}
		ce := vc.callerEnv(s, pos)
		vc.addCallVars(ce, cl)
		for _, a := range ss.Assumes {
			if a.active(vc.prop) && !a.post {
				vc.assume(s.pc, vc.tr(ce, a.E))
				vc.assumedUsed["assume! in "+vc.key+" at "+k+": "+a.Src] = true
				vc.sitesUsed[k] = true
			}
		}
	}
}

// siteClauses applies the caller's ghost updates and assumptions for a call site.
func (vc *FuncVC) siteClauses(s *State, pre *State, ss *SiteSpec, siteKey string, cl *callee, res []Term, pos token.Pos) {
	if ss == nil {
		return
	}
	ce := vc.callerEnv(s, pos)
	if pre != nil {
		ce.old = pre // old() in clauses attached to a call site means "just before the call"
	}
	vc.addCallVars(ce, cl)
	for i, r := range res {
		ce.vars[fmt.Sprintf("$res%d", i)] = r
	}
	for _, a := range ss.Assumes {
		if a.active(vc.prop) && a.post {
			vc.assume(s.pc, vc.tr(ce, a.E))
			vc.assumedUsed["assume! (after the call) in "+vc.key+" at "+siteKey+": "+a.Src] = true
		}
	}
	for _, g := range ss.Ghost {
		act := false
		for _, t := range g.Tags {
			if t == "base" || t == vc.prop {
				act = true
			}
		}
		if !act {
			continue
		}
		v := vc.tr(ce, g.E)
		if gs, ok := vc.ghostSort(g.Var); ok {
			_ = gs
			vc.set(s, "G:"+g.Var, v)
			vc.noteWrite("G:" + g.Var)
		}
	}
}

func (vc *FuncVC) callerEnv(s *State, pos token.Pos) *env {
	e := vc.newEnv(s, vc.entry, pos)
	if vc.curBlock != nil {
		// "$ri": index of the innermost enclosing range-over-slice loop
		var best *loopInfo
		// (blocks that leave the loop by returning are not part of the natural loop: use dominance)
		for _, li := range vc.cur.loops {
			if vc.rangeIndexAlloc(li) != nil && li.header.Dominates(vc.curBlock) && (best == nil || best.header.Dominates(li.header)) {
				best = li
			}
		}
		if best != nil {
			vc.bindRangeIndex(e, best, s)
		}
	}
	vc.bindFreeVars(e, s, vc.fn, func(fv *ssa.FreeVar) Term { return vc.regs[fv] })
	return e
}

// siteShort: the callee part of a site key "call <callee>#<ord>" ("#*" matches every ordinal).
func siteShort(k string, ord int) (string, bool) {
	if !strings.HasPrefix(k, "call ") {
		return "", false
	}
	k = strings.TrimPrefix(k, "call ")
	if suf := fmt.Sprintf("#%d", ord); strings.HasSuffix(k, suf) {
		return strings.TrimSuffix(k, suf), true
	}
	if strings.HasSuffix(k, "#*") {
		return strings.TrimSuffix(k, "#*"), true
	}
	return "", false
}

func lastSeg(s string) string {
	if i := strings.LastIndex(s, "."); i >= 0 {
		return s[i+1:]
	}
	return s
}

func (vc *FuncVC) havocMod(s *State, e *env, m string) {
	base := m
	var idxExpr string
	if i := strings.Index(m, "["); i >= 0 && strings.HasSuffix(m, "]") {
		base = m[:i]
		idxExpr = m[i+1 : len(m)-1]
	}
	key, sort, ok := vc.stateKey(base)
	if !ok {
		// a heap key not seen yet
		if srt, ok2 := vc.sortOfKey(base); ok2 {
			key, sort, ok = base, srt, true
		}
	}
	if !ok {
		vc.notes = append(vc.notes, "modifies: unknown location "+m)
		return
	}
	old := vc.get(s, key, sort)
	if idxExpr != "" {
		ex, err := parseExpr(idxExpr)
		if err == nil {
			idx := vc.tr(e, ex)
			_, vs := splitArraySort(sort)
			nv := vc.freshConst("hv_"+base, vs)
			vc.set(s, key, app(sort, "store", old, idx, nv))
			vc.noteWrite(key)
			return
		}
	}
	nv := vc.freshConst("hv_"+base, sort)
	vc.set(s, key, nv)
	vc.noteWrite(key)
	if key == "alloc" && vc.useQuantSlices {
		vc.emit("(assert (forall ((r!q Int)) (! (=> (select %s r!q) (select %s r!q)) :pattern ((select %s r!q)))))", old.S, nv.S, nv.S)
	}
}

// ---------------------------------------------------------------------------
// builtins

func (vc *FuncVC) builtin(s *State, b *ssa.Builtin, cc *ssa.CallCommon, args []Term, pos token.Pos) []Term {
	switch b.Name() {
	case "len":
		switch cc.Args[0].Type().Underlying().(type) {
		case *types.Slice:
			return []Term{app("Int", "s!len", args[0])}
		case *types.Basic:
			return []Term{app("Int", "str.len", args[0])}
		case *types.Map:
			dk, _, ds, _ := vc.mapKeys(cc.Args[0].Type())
			d := vc.get(s, dk, ds)
			_, dinner := splitArraySort(ds)
			vc.eng.needFun(vc, "maplen!"+smtIdent(dinner), []string{dinner}, "Int")
			t := app("Int", "maplen!"+smtIdent(dinner), app(dinner, "select", d, args[0]))
			vc.assume(s.pc, app("Bool", ">=", t, intLit(0)))
			return []Term{t}
		case *types.Array:
			return []Term{intLit(cc.Args[0].Type().Underlying().(*types.Array).Len())}
		case *types.Pointer:
			return []Term{intLit(cc.Args[0].Type().Underlying().(*types.Pointer).Elem().Underlying().(*types.Array).Len())}
		}
	case "cap":
		return []Term{app("Int", "s!cap", args[0])}
	case "append":
		return []Term{vc.appendOp(s, cc, args, pos)}
	case "copy":
		st, ok := cc.Args[0].Type().Underlying().(*types.Slice)
		if !ok || !vc.useQuantSlices {
			vc.outsideSubset("builtin copy")
			return []Term{vc.freshConst("copy", "Int")}
		}
		// copy(dst, src): memmove of n = min(len dst, len src) elements; the new heap is defined pointwise
		// from the OLD heap (overlapping source and destination are read before they are written)
		dst, src := args[0], args[1]
		es := vc.ss.sortOf(st.Elem())
		hs := "(Array Int (Array Int " + es + "))"
		h := vc.get(s, "A:"+es, hs)
		n := vc.freshConst("copy_n", "Int")
		vc.assume(s.pc, T("Bool", fmt.Sprintf("(= %s (ite (<= (s!len %s) (s!len %s)) (s!len %s) (s!len %s)))", n.S, dst.S, src.S, dst.S, src.S)))
		nh := vc.freshConst("copy_heap", hs)
		od, os_ := sliceOff(dst), sliceOff(src)
		vc.emit("(assert (=> %s (forall ((r!q Int) (k!q Int)) (! (= (select (select %s r!q) k!q) (ite (and (= r!q (s!arr %s)) (<= %s k!q) (< k!q (+ %s %s))) (select (select %s (s!arr %s)) %s) (select (select %s r!q) k!q))) :pattern ((select (select %s r!q) k!q))))))",
			s.pc.S, nh.S, dst.S, od.S, od.S, n.S, h.S, src.S, ixTerm(os_, T("Int", fmt.Sprintf("(- k!q %s)", od.S))).S, h.S, nh.S)
		vc.set(s, "A:"+es, nh)
		vc.noteWrite("A:" + es)
		return []Term{n}
	case "delete":
		m, k := args[0], args[1]
		dk, _, ds, _ := vc.mapKeys(cc.Args[0].Type())
		d := vc.get(s, dk, ds)
		_, dinner := splitArraySort(ds)
		vc.set(s, dk, app(ds, "store", d, m, app(dinner, "store", app(dinner, "select", d, m), k, tFalse)))
		vc.noteWrite(dk)
		return nil
	case "print", "println":
		return nil
	case "ssa:wrapnilchk":
		vc.safety(s, "safe.nil", "wrapnilchk", pos, not(eq(args[0], T("Int", "0"))))
		return []Term{args[0]}
	case "ssa:deferstack":
		return []Term{T("Int", "0")}
	}
	vc.outsideSubset("builtin %s", b.Name())
	var res []Term
	sig := cc.Signature()
	for i := 0; i < sig.Results().Len(); i++ {
		res = append(res, vc.freshConst("bi", vc.ss.sortOf(sig.Results().At(i).Type())))
	}
	return res
}

func (vc *FuncVC) appendOp(s *State, cc *ssa.CallCommon, args []Term, pos token.Pos) Term {
	sl := args[0]
	if len(args) < 2 {
		return sl
	}
	t := args[1]
	var es string
	if st, ok := cc.Args[0].Type().Underlying().(*types.Slice); ok {
		es = vc.ss.sortOf(st.Elem())
	} else {
		es = "Int"
	}
	if t.Sort == "String" {
		// append([]byte, string...)
		vc.outsideSubset("append of string to bytes")
		return vc.freshConst("append", "Slice")
	}
	is := "(Array Int " + es + ")"
	hs := "(Array Int " + is + ")"
	h := vc.get(s, "A:"+es, hs)
	// the common case append(s, v): the variadic argument is a one-element array literal
	if sx, ok := cc.Args[1].(*ssa.Slice); ok && sx.Low == nil && sx.High == nil {
		if al, ok := sx.X.(*ssa.Alloc); ok {
			if at, ok := al.Type().Underlying().(*types.Pointer).Elem().Underlying().(*types.Array); ok && at.Len() == 1 {
				v := T(es, fmt.Sprintf("(select (select %s (s!arr %s)) (s!off %s))", h.S, t.S, t.S))
				n := T("Int", fmt.Sprintf("(+ (s!len %s) 1)", sl.S))
				inplace := T("Bool", fmt.Sprintf("(<= %s (s!cap %s))", n.S, sl.S))
				r := vc.freshRef(s, "append_arr")
				vc.noteWrite("alloc")
				ncap := vc.freshConst("append_cap", "Int")
				vc.assume(s.pc, app("Bool", ">=", ncap, n))
				res := vc.freshConst("append", "Slice")
				vc.emit("(assert (=> %s (= %s (ite %s (mkS (s!arr %s) (s!off %s) %s (s!cap %s)) (mkS %s 0 %s %s)))))",
					s.pc.S, res.S, inplace.S, sl.S, sl.S, n.S, sl.S, r.S, n.S, ncap.S)
				// the reallocated array: old elements, then v
				R := vc.freshConst("append_new", is)
				vc.emit("(assert (=> %s (= (select %s (s!len %s)) %s)))", s.pc.S, R.S, sl.S, v.S)
				if vc.useQuantSlices {
					vc.emit("(assert (=> %s (forall ((j!q Int)) (! (=> (and (<= 0 j!q) (< j!q (s!len %s))) (= (select %s j!q) (select (select %s (s!arr %s)) (ix (s!off %s) j!q)))) :pattern ((select %s j!q))))))",
						s.pc.S, sl.S, R.S, h.S, sl.S, sl.S, R.S)
				}
				nh := T(hs, fmt.Sprintf("(ite %s (store %s (s!arr %s) (store (select %s (s!arr %s)) (+ (s!off %s) (s!len %s)) %s)) (store %s %s %s))",
					inplace.S, h.S, sl.S, h.S, sl.S, sl.S, sl.S, v.S, h.S, r.S, R.S))
				vc.set(s, "A:"+es, nh)
				vc.noteWrite("A:" + es)
				vc.typeFacts(s.pc, res, cc.Args[0].Type())
				return res
			}
		}
	}
	n := T("Int", fmt.Sprintf("(+ (s!len %s) (s!len %s))", sl.S, t.S))
	inplace := T("Bool", fmt.Sprintf("(<= %s (s!cap %s))", n.S, sl.S))
	r := vc.freshRef(s, "append_arr")
	vc.noteWrite("alloc")
	ncap := vc.freshConst("append_cap", "Int")
	vc.assume(s.pc, app("Bool", ">=", ncap, n))
	res := vc.freshConst("append", "Slice")
	vc.emit("(assert (=> %s (= %s (ite %s (mkS (s!arr %s) (s!off %s) %s (s!cap %s)) (mkS %s 0 %s %s)))))",
		s.pc.S, res.S, inplace.S, sl.S, sl.S, n.S, sl.S, r.S, n.S, ncap.S)
	// contents
	nh := vc.freshConst("A_"+es, hs)
	// single-element append (the common case): quantifier-free for the in-place branch
	if vc.useQuantSlices {
		q := "j!q"
		// in place: elements [off+len, off+n) of arr are written from t, rest unchanged
		vc.emit("(assert (=> (and %s %s) (forall ((r!q Int) (%s Int)) (! (= (select (select %s r!q) %s) (ite (and (= r!q (s!arr %s)) (<= (+ (s!off %s) (s!len %s)) %s) (< %s (+ (s!off %s) %s))) (select (select %s (s!arr %s)) (ix (s!off %s) (- %s (+ (s!off %s) (s!len %s))))) (select (select %s r!q) %s))) :pattern ((select (select %s r!q) %s))))))",
			s.pc.S, inplace.S, q, nh.S, q, sl.S, sl.S, sl.S, q, q, sl.S, n.S, h.S, t.S, t.S, q, sl.S, sl.S, h.S, q, nh.S, q)
		// reallocated: new array r holds old elements then t's; other arrays unchanged
		vc.emit("(assert (=> (and %s (not %s)) (forall ((r!q Int) (%s Int)) (! (= (select (select %s r!q) %s) (ite (= r!q %s) (ite (< %s (s!len %s)) (select (select %s (s!arr %s)) (ix (s!off %s) %s)) (select (select %s (s!arr %s)) (ix (s!off %s) (- %s (s!len %s))))) (select (select %s r!q) %s))) :pattern ((select (select %s r!q) %s))))))",
			s.pc.S, inplace.S, q, nh.S, q, r.S, q, sl.S, h.S, sl.S, sl.S, q, h.S, t.S, t.S, q, sl.S, h.S, q, nh.S, q)
	}
	vc.set(s, "A:"+es, nh)
	vc.noteWrite("A:" + es)
	vc.typeFacts(s.pc, res, cc.Args[0].Type())
	return res
}

// ---------------------------------------------------------------------------
// defers

func (vc *FuncVC) deferIndex(d *ssa.Defer) int {
	for i, x := range vc.cur.deferSites {
		if x == d {
			return i
		}
	}
	vc.cur.deferSites = append(vc.cur.deferSites, d)
	return len(vc.cur.deferSites) - 1
}

func (vc *FuncVC) deferInstr(s *State, d *ssa.Defer) {
	k := vc.deferIndex(d)
	if vc.cur.deferInLoop[d] {
		vc.deferLoop(s, d, k)
		return
	}
	vc.set(s, fmt.Sprintf("D:%s%d", vc.cur.prefix, k), tTrue)
	vc.noteWrite(fmt.Sprintf("D:%s%d", vc.cur.prefix, k))
	if d.Call.IsInvoke() {
		vc.set(s, fmt.Sprintf("DA:%s%d:recv", vc.cur.prefix, k), vc.val(s, d.Call.Value))
	} else if _, isFn := d.Call.Value.(*ssa.Function); !isFn {
		if _, isB := d.Call.Value.(*ssa.Builtin); !isB {
			vc.set(s, fmt.Sprintf("DA:%s%d:recv", vc.cur.prefix, k), vc.val(s, d.Call.Value))
		}
	}
	for i, a := range d.Call.Args {
		vc.set(s, fmt.Sprintf("DA:%s%d:%d", vc.cur.prefix, k, i), vc.val(s, a))
	}
}

func (vc *FuncVC) runDefers(s *State, rd *ssa.RunDefers) {
	for k := len(vc.cur.deferSites) - 1; k >= 0; k-- {
		d := vc.cur.deferSites[k]
		if vc.cur.deferInLoop[d] {
			vc.runDeferLoop(s, d, k, rd.Pos())
			continue
		}
		flag, ok := s.vars[fmt.Sprintf("D:%s%d", vc.cur.prefix, k)]
		if !ok || flag.S == "false" {
			continue
		}
		// run the deferred call under the guard
		s2 := s.clone()
		s2.pc = vc.namePC(and(s.pc, flag), fmt.Sprintf("defer%d", k))
		vc.execDeferred(s2, d, k)
		if flag.S == "true" {
			s.vars = s2.vars
			continue
		}
		s3 := s.clone()
		s3.pc = vc.namePC(and(s.pc, not(flag)), fmt.Sprintf("nodefer%d", k))
		m := vc.merge([]*State{s2, s3}, fmt.Sprintf("afterdefer%d", k))
		s.vars = m.vars
		s.pc = m.pc
	}
}

func (vc *FuncVC) execDeferred(s *State, d *ssa.Defer, k int) {
	cc := &d.Call
	ord := vc.cur.callOrd[d]
	name := vc.cur.callKeyOf[d]
	var args []Term
	for i := range cc.Args {
		args = append(args, s.vars[fmt.Sprintf("DA:%s%d:%d", vc.cur.prefix, k, i)])
	}
	pos := d.Pos()
	if cc.IsInvoke() {
		recv := s.vars[fmt.Sprintf("DA:%s%d:recv", vc.cur.prefix, k)]
		c, ckey := vc.lookupIfaceContract(cc.Value.Type(), cc.Method)
		sig := cc.Method.Type().(*types.Signature)
		pn := []string{"this"}
		for i := 0; i < sig.Params().Len(); i++ {
			pn = append(pn, sig.Params().At(i).Name())
		}
		recv.GoT = cc.Value.Type()
		cl := &callee{name: name, c: c, ckey: ckey, sig: sig, pnames: pn, args: append([]Term{recv}, args...), isIface: true}
		vc.resolveSatisfies(cl)
		vc.applyContract(s, cl, ord, d, pos)
		return
	}
	switch f := cc.Value.(type) {
	case *ssa.Function:
		vc.callStatic(s, f, nil, args, name, ord, d, pos)
	case *ssa.MakeClosure:
		t := s.vars[fmt.Sprintf("DA:%s%d:recv", vc.cur.prefix, k)]
		vc.callStatic(s, f.Fn.(*ssa.Function), vc.closures[t.S], args, name, ord, d, pos)
	case *ssa.Builtin:
		// e.g. defer close(ch)
		vc.outsideSubset("deferred builtin %s", f.Name())
	default:
		vc.outsideSubset("deferred dynamic call at %s", vc.posStr(pos))
	}
}

// Defer inside a loop: only supported for callees whose contract declares a
// "deferred" ghost multiset protocol: the contract of the callee must have the
// form of Database.Unlock (requires held[k]==1, sets held[k]:=0). The pending
// keys are kept in ghost multiset "deferredUnlock".
func (vc *FuncVC) deferLoop(s *State, d *ssa.Defer, k int) {
	if !d.Call.IsInvoke() || d.Call.Method.Name() != "Unlock" {
		vc.outsideSubset("defer inside loop of %s", vc.calleeName(&d.Call))
		return
	}
	if _, ok := vc.ghostSort("deferredUnlock"); !ok {
		vc.outsideSubset("defer inside loop needs ghost deferredUnlock")
		return
	}
	id := vc.val(s, d.Call.Args[1])
	du := vc.get(s, "G:deferredUnlock", "(Array String Bool)")
	key := T("String", fmt.Sprintf("(str %s)", id.S))
	if vc.prop == "C09" || vc.prop == "C08" {
		vc.oblige("pre", fmt.Sprintf("pre:deferred-in-loop.%s#%d.once", vc.cur.callKeyOf[d], vc.cur.callOrd[d]), "an Unlock of this id is not already pending", d.Pos(), s.pc, not(app("Bool", "select", du, key)))
	}
	vc.deferKeys = append(vc.deferKeys, key)
	vc.set(s, "G:deferredUnlock", app("(Array String Bool)", "store", du, key, tTrue))
	vc.noteWrite("G:deferredUnlock")
}

// runDeferLoop runs every pending deferred Unlock: each needs its lock held; afterwards exactly the
// pending keys are released. The post-state is given quantifier-free: pointwise at every key that
// was deferred in this function, plus the two whole-map facts the callers need.
func (vc *FuncVC) runDeferLoop(s *State, d *ssa.Defer, k int, pos token.Pos) {
	if _, ok := vc.ghostSort("deferredUnlock"); !ok {
		return
	}
	du := vc.get(s, "G:deferredUnlock", "(Array String Bool)")
	if du.S == vc.ss.zero("(Array String Bool)").S {
		return
	}
	if vc.prop == "C09" || vc.prop == "C08" {
		held := vc.get(s, "G:held", "(Array String Bool)")
		f := T("Bool", fmt.Sprintf("(forall ((k!q String)) (=> (select %s k!q) (select %s k!q)))", du.S, held.S))
		vc.oblige("pre", fmt.Sprintf("pre:deferred-in-loop.%s#%d.held", vc.cur.callKeyOf[d], vc.cur.callOrd[d]), "every pending deferred Unlock(k) has held[k]", pos, s.pc, f)
		nh := vc.freshConst("held_after_defers", "(Array String Bool)")
		vc.assume(s.pc, T("Bool", fmt.Sprintf("(=> (= %s %s) (= %s emp))", held.S, du.S, nh.S)))
		vc.assume(s.pc, T("Bool", fmt.Sprintf("(=> (= %s emp) (= %s %s))", du.S, nh.S, held.S)))
		for _, key := range vc.deferKeys {
			vc.assume(s.pc, T("Bool", fmt.Sprintf("(= (select %s %s) (and (select %s %s) (not (select %s %s))))", nh.S, key.S, held.S, key.S, du.S, key.S)))
		}
		vc.set(s, "G:held", nh)
	}
	vc.set(s, "G:deferredUnlock", vc.ss.zero("(Array String Bool)"))
}

// resolveSatisfies: an interface-method contract of the form
// "iface I.M satisfies F" uses F's contract; the dynamic receiver is taken to be F's receiver type.
func (vc *FuncVC) resolveSatisfies(cl *callee) {
	if cl.c == nil || cl.c.Satisfies == "" {
		return
	}
	target := vc.eng.fnByKey[cl.c.Satisfies]
	tc := vc.eng.specs.Contracts[cl.c.Satisfies]
	if target == nil || tc == nil {
		vc.specErrors = append(vc.specErrors, cl.ckey+" satisfies unknown "+cl.c.Satisfies)
		return
	}
	var pn []string
	for _, p := range target.Params {
		pn = append(pn, p.Name())
	}
	recv := app("Int", "i!pl", cl.args[0])
	recv.GoT = target.Params[0].Type()
	vc.assumedUsed[cl.ckey+": the dynamic receiver behaves as "+cl.c.Satisfies+" and satisfies its receiver-only preconditions (construction via NewActor/NewSocialActor/NewFederatingActor; custom delegates are assumed to meet the same contract)"] = true
	vc.usedContracts[cl.c.Satisfies] = true
	cl.args = append([]Term{recv}, cl.args[1:]...)
	cl.pnames = pn
	cl.skipRecv = target.Params[0].Name()
	cl.ckey = cl.c.Satisfies
	cl.c = tc
	cl.fn = target
	cl.sig = target.Signature // named results of the implementation are what its contract mentions
}

func mentions(x Expr, name string) bool {
	switch n := x.(type) {
	case *EIdent:
		return n.Name == name
	case *EUnary:
		return mentions(n.X, name)
	case *EBinary:
		return mentions(n.L, name) || mentions(n.R, name)
	case *ECall:
		if mentions(n.Fun, name) {
			return true
		}
		for _, a := range n.Args {
			if mentions(a, name) {
				return true
			}
		}
	case *ESel:
		return mentions(n.X, name)
	case *EIndex:
		return mentions(n.X, name) || mentions(n.I, name)
	case *EStore:
		return mentions(n.X, name) || mentions(n.I, name) || mentions(n.V, name)
	case *EOld:
		return mentions(n.X, name)
	case *EIte:
		return mentions(n.C, name) || mentions(n.A, name) || mentions(n.B, name)
	case *EQuant:
		return mentions(n.Body, name)
	}
	return false
}

func pureDeps(c *Contract) []string {
	if c != nil && len(c.PureDeps) > 0 {
		if len(c.PureDeps) == 1 && c.PureDeps[0] == "none" { // a function of its arguments only
			return nil
		}
		return c.PureDeps
	}
	return []string{"ASH", "ASHP"}
}

// canInline: a function of the repository that has a body, no contract, and is not already being inlined.
func (vc *FuncVC) canInline(f *ssa.Function) bool {
	if len(f.Blocks) == 0 || f.Pkg == nil && f.Parent() == nil {
		return false
	}
	pkg := f.Pkg
	for p := f; pkg == nil && p != nil; p = p.Parent() {
		pkg = p.Pkg
	}
	if pkg == nil || !strings.HasPrefix(pkg.Pkg.Path(), modPrefix) {
		return false
	}
	if f == vc.fn {
		return false
	}
	for _, g := range vc.stack {
		if g == f {
			return false
		}
	}
	return len(vc.stack) < 6
}

// inlineCall verifies through the body of a contract-less repository function: its blocks are
// executed in place, the states at its returns are merged, and execution continues in the caller.
func (vc *FuncVC) inlineCall(s *State, f *ssa.Function, ci *closureInfo, args []Term, name string, pos token.Pos) []Term {
	fr := vc.frameOf(f, nil, true)
	vc.inlinedFns[fnKey(f)] = true
	saved := vc.cur
	savedBlock := vc.curBlock
	vc.cur = fr
	vc.stack = append(vc.stack, f)
	fr.rets = nil
	for i, p := range f.Params {
		if i < len(args) {
			t := args[i]
			t.GoT = p.Type()
			vc.regs[p] = t
		}
	}
	if ci != nil {
		for i, fv := range f.FreeVars {
			if i < len(ci.bindings) {
				t := ci.bindings[i]
				t.GoT = fv.Type()
				vc.regs[fv] = t
			}
		}
	}
	st := s.clone()
	// loops of the caller that contain this call site also contain everything the callee writes
	vc.inlineOuter = append(vc.inlineOuter, savedBlockLoops{saved, savedBlock})
	vc.runFrame(fr, st)
	vc.inlineOuter = vc.inlineOuter[:len(vc.inlineOuter)-1]
	vc.stack = vc.stack[:len(vc.stack)-1]
	vc.cur = saved
	vc.curBlock = savedBlock
	nres := f.Signature.Results().Len()
	if len(fr.rets) == 0 {
		// the callee never returns (all paths panic): the caller's path ends here
		s.pc = tFalse
		var res []Term
		for i := 0; i < nres; i++ {
			res = append(res, vc.ss.zero(vc.ss.sortOf(f.Signature.Results().At(i).Type())))
		}
		return res
	}
	var outs []*State
	for _, r := range fr.rets {
		o := r.s.clone()
		for i, t := range r.res {
			o.vars[fmt.Sprintf("TMP:ret%d", i)] = t
		}
		outs = append(outs, o)
	}
	m := vc.merge(outs, "inl_"+f.Name())
	var res []Term
	for i := 0; i < nres; i++ {
		t := m.vars[fmt.Sprintf("TMP:ret%d", i)]
		t.GoT = f.Signature.Results().At(i).Type()
		delete(m.vars, fmt.Sprintf("TMP:ret%d", i))
		res = append(res, t)
	}
	s.vars = m.vars
	s.pc = m.pc
	return res
}

// defaultExternal: may a contract-less callee be given the default external contract? Only functions
// and interface methods declared outside the repository, and only if no specification models state
// for their receiver type (e.g. http.Header, bytes.Buffer have ghost models: every method needs a spec).
func (vc *FuncVC) defaultExternal(cl *callee) bool {
	var pkgPath, recv string
	if cl.fn != nil {
		pkg := cl.fn.Pkg
		for p := cl.fn; pkg == nil && p != nil; p = p.Parent() {
			pkg = p.Pkg
		}
		if pkg == nil {
			return false
		}
		pkgPath = pkg.Pkg.Path()
		if r := cl.fn.Signature.Recv(); r != nil {
			recv = normType(r.Type())
		}
	} else if cl.isIface && cl.recvT != nil {
		recv = normType(cl.recvT)
		if n, ok := cl.recvT.(*types.Named); ok && n.Obj().Pkg() != nil {
			pkgPath = n.Obj().Pkg().Path()
		} else {
			return false
		}
	} else {
		return false
	}
	if strings.HasPrefix(pkgPath, modPrefix) {
		return false
	}
	// an external function handed a value of this repository through an interface with methods (sort.Sort(this),
	// io.Copy(w, r), ...) or a pointer to one of its structs can call back into the repository and mutate it: no
	// default contract for those, the call needs a written one
	for _, a := range cl.args {
		if a.GoT == nil {
			continue
		}
		switch t := a.GoT.Underlying().(type) {
		case *types.Interface:
			if t.NumMethods() > 0 && !harmlessIface(a.GoT) && vc.mayHoldRepoValue(a) {
				return false
			}
		case *types.Pointer:
			if n, ok := t.Elem().(*types.Named); ok && n.Obj().Pkg() != nil && strings.HasPrefix(n.Obj().Pkg().Path(), modPrefix) && isStruct(t.Elem()) {
				return false
			}
		}
	}
	if recv != "" {
		base := strings.TrimPrefix(recv, "*")
		for k := range vc.eng.specs.Contracts {
			if strings.HasPrefix(k, "(*"+base+").") || strings.HasPrefix(k, "("+base+").") || strings.HasPrefix(k, "iface "+base+".") {
				return false
			}
		}
	}
	return true
}


// harmlessIface: interface types whose methods only read (listed assumption of the default external contract).
func harmlessIface(t types.Type) bool {
	switch types.TypeString(t, nil) {
	case "error", "context.Context", "fmt.Stringer":
		return true
	}
	return false
}

// mayHoldRepoValue: the interface value was made from a value of a type of this repository (statically known
// conversion), or nothing is known about it and its static type is declared outside the repository.
func (vc *FuncVC) mayHoldRepoValue(a Term) bool {
	if m := mkILit.FindStringSubmatch(a.S); m != nil {
		var tag int
		fmt.Sscanf(m[1], "%d", &tag)
		if tag >= 1 && tag <= len(vc.ss.tagTypes) {
			t := vc.ss.tagTypes[tag-1]
			if p, ok := t.(*types.Pointer); ok {
				t = p.Elem()
			}
			if n, ok := t.(*types.Named); ok && n.Obj().Pkg() != nil {
				return strings.HasPrefix(n.Obj().Pkg().Path(), modPrefix)
			}
			return false
		}
	}
	return false
}
