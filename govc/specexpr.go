package main

import (
	"fmt"
	"go/constant"
	"go/token"
	"go/types"
	"strings"

	"golang.org/x/tools/go/ssa"
)

type env struct {
	vc    *FuncVC
	vars  map[string]Term
	lazy  map[string]func(st *State) Term
	cur   *State
	old   *State
	inOld bool
	pos   token.Pos
	errs  []string
	noLocals bool
	depth    int
}

func (vc *FuncVC) newEnv(cur, old *State, pos token.Pos) *env {
	e := &env{vc: vc, vars: map[string]Term{}, lazy: map[string]func(*State) Term{}, cur: cur, old: old, pos: pos}
	for k, v := range vc.lets {
		e.vars[k] = v
	}
	return e
}

func (e *env) st() *State {
	if e.inOld {
		return e.old
	}
	return e.cur
}

// bindFreeVars makes the free variables of closure fn visible by name; their
// value is read from the captured cell in the relevant state.
func (vc *FuncVC) bindFreeVars(e *env, _ *State, fn *ssa.Function, ref func(*ssa.FreeVar) Term) {
	for _, fv := range fn.FreeVars {
		fv := fv
		r := ref(fv)
		e.lazy[fv.Name()] = func(st *State) Term { return vc.loadCell(st, r, fv.Type()) }
	}
}

func (vc *FuncVC) bindFreeVarsCaller(e *env, _ *State, fn *ssa.Function, ci *closureInfo) {
	for i, fv := range fn.FreeVars {
		if i >= len(ci.bindings) {
			break
		}
		fv := fv
		r := ci.bindings[i]
		e.lazy[fv.Name()] = func(st *State) Term { return vc.loadCell(st, r, fv.Type()) }
	}
}

// loadCell reads the value a pointer (of Go type pt) points to.
func (vc *FuncVC) loadCell(st *State, ref Term, pt types.Type) Term {
	et := pt.Underlying().(*types.Pointer).Elem()
	var t Term
	switch {
	case isStruct(et):
		t = vc.loadStructFromHeap(st, ref, et)
	case isArray(et):
		sort := vc.ss.sortOf(et.Underlying().(*types.Array).Elem())
		h := vc.get(st, "A:"+sort, "(Array Int (Array Int "+sort+"))")
		t = app("(Array Int "+sort+")", "select", h, ref)
	default:
		sort := vc.ss.sortOf(et)
		h := vc.get(st, "C:"+sort, "(Array Int "+sort+")")
		t = app(sort, "select", h, ref)
	}
	t.GoT = et
	return t
}

func (e *env) fail(format string, args ...interface{}) Term {
	msg := fmt.Sprintf(format, args...)
	e.vc.specErrors = append(e.vc.specErrors, msg)
	return T("Bool", "false")
}

// lookupLocal resolves a source-level name at e.pos to the current value of the variable.
func (e *env) lookupLocal(name string) (Term, bool) {
	vc := e.vc
	if e.noLocals {
		return Term{}, false
	}
	fn := vc.fn
	if fn.Pkg == nil && fn.Parent() != nil {
		// closures keep Pkg of parent
	}
	pkg := fn.Pkg
	for p := fn; pkg == nil && p != nil; p = p.Parent() {
		pkg = p.Pkg
	}
	if pkg == nil || pkg.Pkg == nil {
		return Term{}, false
	}
	var obj types.Object
	if e.pos.IsValid() {
		sc := pkg.Pkg.Scope().Innermost(e.pos)
		if sc != nil {
			_, obj = sc.LookupParent(name, e.pos)
		}
	}
	if obj == nil {
		obj = pkg.Pkg.Scope().Lookup(name)
	}
	if obj == nil {
		// unique local by name
		var found *ssa.Alloc
		n := 0
		for _, l := range fn.Locals {
			if l.Comment == name {
				found = l
				n++
			}
		}
		if n == 1 {
			return e.allocValue(found), true
		}
		return Term{}, false
	}
	switch o := obj.(type) {
	case *types.Const:
		t := constValTerm(vc, o.Val(), o.Type())
		return t, true
	case *types.Var:
		if o.Parent() == pkg.Pkg.Scope() {
			key := "GL:" + strings.ReplaceAll(pkg.Pkg.Path(), modPrefix, "") + "." + name
			t := vc.get(e.st(), key, vc.ss.sortOf(o.Type()))
			t.GoT = o.Type()
			return t, true
		}
		for _, l := range vc.allAllocs() {
			if l.Pos() == o.Pos() && l.Comment == name {
				if e.inOld {
					if pv, ok := vc.params[name]; ok && vc.isParamAlloc(l) {
						return pv, true
					}
				}
				return e.allocValue(l), true
			}
		}
		for _, fv := range fn.FreeVars {
			if fv.Name() == name {
				return vc.loadCell(e.st(), vc.regs[fv], fv.Type()), true
			}
		}
		if pv, ok := vc.params[name]; ok {
			return pv, true
		}
	}
	return Term{}, false
}

func (vc *FuncVC) allAllocs() []*ssa.Alloc {
	if vc.allocs != nil {
		return vc.allocs
	}
	for _, b := range vc.fn.Blocks {
		for _, in := range b.Instrs {
			if a, ok := in.(*ssa.Alloc); ok {
				vc.allocs = append(vc.allocs, a)
			}
		}
	}
	return vc.allocs
}

func (vc *FuncVC) isParamAlloc(a *ssa.Alloc) bool {
	for _, p := range vc.fn.Params {
		if p.Name() == a.Comment && p.Pos() == a.Pos() {
			return true
		}
	}
	return false
}

func (e *env) allocValue(a *ssa.Alloc) Term {
	vc := e.vc
	et := a.Type().Underlying().(*types.Pointer).Elem()
	if ad, ok := vc.addrs[a]; ok {
		t := vc.loadAddr(e.st(), ad)
		t.GoT = et
		return t
	}
	if r, ok := vc.regs[a]; ok {
		return vc.loadCell(e.st(), r, a.Type())
	}
	// not yet allocated at this point
	z := vc.ss.zero(vc.ss.sortOf(et))
	z.GoT = et
	return z
}

func constValTerm(vc *FuncVC, v constant.Value, t types.Type) Term {
	var r Term
	switch v.Kind() {
	case constant.Bool:
		if constant.BoolVal(v) {
			r = tTrue
		} else {
			r = tFalse
		}
	case constant.String:
		r = strLit(constant.StringVal(v))
	case constant.Int:
		i, _ := constant.Int64Val(v)
		r = intLit(i)
	default:
		r = T("Int", "0")
	}
	r.GoT = t
	return r
}

const nilSort = "?nil"

func (vc *FuncVC) tr(e *env, x Expr) Term {
	switch n := x.(type) {
	case *EInt:
		return intLit(n.V)
	case *EStr:
		return strLit(n.V)
	case *EBool:
		if n.V {
			return tTrue
		}
		return tFalse
	case *ENil:
		return Term{S: "nil", Sort: nilSort}
	case *ERaw:
		return T(n.Sort, n.S)
	case *EOld:
		save := e.inOld
		e.inOld = true
		t := vc.tr(e, n.X)
		e.inOld = save
		return t
	case *EIdent:
		return vc.trIdent(e, n.Name)
	case *EUnary:
		v := vc.tr(e, n.X)
		if n.Op == "!" {
			return not(v)
		}
		return app(v.Sort, "-", v)
	case *EIte:
		c := vc.tr(e, n.C)
		a := vc.tr(e, n.A)
		b := vc.tr(e, n.B)
		a, b = vc.unifyNil(a, b)
		return ite(c, a, b)
	case *EBinary:
		return vc.trBinary(e, n)
	case *ESel:
		return vc.trSel(e, n)
	case *ECall:
		return vc.trCall(e, n)
	case *EIndex:
		return vc.trIndex(e, n)
	case *EStore:
		a := vc.tr(e, n.X)
		i := vc.tr(e, n.I)
		v := vc.tr(e, n.V)
		return app(a.Sort, "store", a, i, v)
	case *EQuant:
		saved := map[string]*Term{}
		var binders []string
		for _, qv := range n.Vars {
			if old, ok := e.vars[qv.Name]; ok {
				o := old
				saved[qv.Name] = &o
			} else {
				saved[qv.Name] = nil
			}
			e.vars[qv.Name] = T(qv.Sort, "q!"+qv.Name)
			binders = append(binders, fmt.Sprintf("(q!%s %s)", qv.Name, qv.Sort))
		}
		body := vc.tr(e, n.Body)
		var pats []string
		for _, group := range n.Trig {
			var ts []string
			for _, tr := range group {
				ts = append(ts, vc.tr(e, tr).S)
			}
			pats = append(pats, "("+strings.Join(ts, " ")+")")
		}
		for k, v := range saved {
			if v == nil {
				delete(e.vars, k)
			} else {
				e.vars[k] = *v
			}
		}
		q := "forall"
		if !n.Forall {
			q = "exists"
		}
		if len(pats) > 0 {
			return T("Bool", fmt.Sprintf("(%s (%s) (! %s :pattern %s))", q, strings.Join(binders, " "), body.S, strings.Join(pats, " :pattern ")))
		}
		return T("Bool", fmt.Sprintf("(%s (%s) %s)", q, strings.Join(binders, " "), body.S))
	}
	return e.fail("cannot translate %T", x)
}

func (vc *FuncVC) unifyNil(a, b Term) (Term, Term) {
	if a.Sort == nilSort && b.Sort != nilSort {
		a = vc.ss.zero(b.Sort)
	}
	if b.Sort == nilSort && a.Sort != nilSort {
		b = vc.ss.zero(a.Sort)
	}
	if a.Sort == nilSort && b.Sort == nilSort {
		a, b = T("Int", "0"), T("Int", "0")
	}
	return a, b
}

func (vc *FuncVC) trIdent(e *env, name string) Term {
	if t, ok := e.vars[name]; ok {
		return t
	}
	if f, ok := e.lazy[name]; ok {
		return f(e.st())
	}
	if gs, ok := vc.ghostSort(name); ok {
		return vc.get(e.st(), "G:"+name, gs)
	}
	for _, d := range vc.eng.specs.Defines {
		if d.Name == name {
			return T(d.Ret, name)
		}
	}
	if t, ok := e.lookupLocal(name); ok {
		return t
	}
	if fd, ok := vc.eng.specs.Funs[name]; ok && len(fd.Args) == 0 {
		return T(fd.Ret, name)
	}
	return e.fail("unknown name %q in %s", name, vc.key)
}

func (vc *FuncVC) trBinary(e *env, n *EBinary) Term {
	if n.Op == "&&" || n.Op == "||" {
		// flatten a chain a && b && c ... into one n-ary term (a left-nested chain of binary terms
		// re-copies the whole left operand at every level: quadratic for the long conjunctions of generated contracts)
		var ops []Expr
		var walk func(x Expr)
		walk = func(x Expr) {
			if b, ok := x.(*EBinary); ok && b.Op == n.Op {
				walk(b.L)
				walk(b.R)
				return
			}
			ops = append(ops, x)
		}
		walk(n)
		ts := make([]Term, 0, len(ops))
		for _, o := range ops {
			ts = append(ts, vc.tr(e, o))
		}
		if n.Op == "&&" {
			return and(ts...)
		}
		return or(ts...)
	}
	l := vc.tr(e, n.L)
	r := vc.tr(e, n.R)
	switch n.Op {
	case "&&":
		return and(l, r)
	case "||":
		return or(l, r)
	case "==>":
		return imp(l, r)
	case "<==>":
		return app("Bool", "=", l, r)
	case "==", "!=":
		l, r = vc.unifyNil(l, r)
		var t Term
		if l.Sort == "Slice" && (isZeroSlice(l) || isZeroSlice(r)) {
			o := l
			if isZeroSlice(l) {
				o = r
			}
			t = eq(app("Int", "s!arr", o), T("Int", "0"))
		} else {
			if l.Sort != r.Sort {
				return e.fail("sort mismatch in %s %s %s: %s vs %s", l.S, n.Op, r.S, l.Sort, r.Sort)
			}
			t = eq(l, r)
		}
		if n.Op == "!=" {
			return not(t)
		}
		return t
	case "<", "<=", ">", ">=":
		if l.Sort == "String" {
			switch n.Op {
			case "<":
				return app("Bool", "str.<", l, r)
			case "<=":
				return app("Bool", "str.<=", l, r)
			case ">":
				return app("Bool", "str.<", r, l)
			default:
				return app("Bool", "str.<=", r, l)
			}
		}
		return app("Bool", n.Op, l, r)
	case "+":
		if l.Sort == "String" {
			return app("String", "str.++", l, r)
		}
		return app(l.Sort, "+", l, r)
	case "-", "*":
		return app(l.Sort, n.Op, l, r)
	case "/":
		return app("Int", "godiv", l, r)
	case "%":
		return app("Int", "gomod", l, r)
	}
	return e.fail("bad operator %s", n.Op)
}

func isZeroSlice(t Term) bool { return t.S == "nilS" || t.S == "(mkS 0 0 0 0)" }

func (vc *FuncVC) trSel(e *env, n *ESel) Term {
	// package-qualified global: pub.ErrObjectRequired
	if id, ok := n.X.(*EIdent); ok {
		if _, isVar := e.vars[id.Name]; !isVar {
			if _, isLazy := e.lazy[id.Name]; !isLazy {
				if pkg := vc.eng.pkgByName(id.Name); pkg != nil {
					if _, isLocal := e.lookupLocal(id.Name); !isLocal {
						obj := pkg.Pkg.Scope().Lookup(n.Name)
						switch o := obj.(type) {
						case *types.Const:
							return constValTerm(vc, o.Val(), o.Type())
						case *types.Var:
							key := "GL:" + strings.ReplaceAll(pkg.Pkg.Path(), modPrefix, "") + "." + n.Name
							t := vc.get(e.st(), key, vc.ss.sortOf(o.Type()))
							t.GoT = o.Type()
							return t
						}
						return e.fail("unknown %s.%s", id.Name, n.Name)
					}
				}
			}
		}
	}
	x := vc.tr(e, n.X)
	switch x.Sort {
	case "Slice":
		switch n.Name {
		case "len", "off", "cap", "arr":
			return app("Int", "s!"+n.Name, x)
		}
	case "Iface":
		switch n.Name {
		case "dyn", "pl":
			return app("Int", "i!"+n.Name, x)
		}
	}
	if x.GoT == nil {
		return e.fail("field %s of untyped term %s", n.Name, x.S)
	}
	t := x.GoT
	if pt, ok := t.Underlying().(*types.Pointer); ok {
		st, ok := pt.Elem().Underlying().(*types.Struct)
		if !ok {
			return e.fail("field %s of non-struct pointer", n.Name)
		}
		for i := 0; i < st.NumFields(); i++ {
			if st.Field(i).Name() == n.Name {
				return vc.heapLoadField(e.st(), x, pt.Elem(), i)
			}
		}
		// promoted fields through embedded structs
		for i := 0; i < st.NumFields(); i++ {
			if st.Field(i).Embedded() && isStruct(st.Field(i).Type()) {
				inner := vc.heapLoadField(e.st(), x, pt.Elem(), i)
				if r, ok := vc.structField(inner, n.Name); ok {
					return r
				}
			}
		}
		return e.fail("no field %s in %s", n.Name, t)
	}
	if _, ok := t.Underlying().(*types.Struct); ok {
		if r, ok := vc.structField(x, n.Name); ok {
			return r
		}
		return e.fail("no field %s in %s", n.Name, t)
	}
	return e.fail("cannot select %s from %s (%s)", n.Name, x.S, t)
}

func (vc *FuncVC) structField(x Term, name string) (Term, bool) {
	st, ok := x.GoT.Underlying().(*types.Struct)
	if !ok {
		return Term{}, false
	}
	info := vc.ss.structInfoOf(x.GoT)
	for i := 0; i < st.NumFields(); i++ {
		if st.Field(i).Name() == name {
			r := app(info.sorts[i], info.fields[i], x)
			r.GoT = st.Field(i).Type()
			return r, true
		}
	}
	for i := 0; i < st.NumFields(); i++ {
		if st.Field(i).Embedded() {
			inner := app(info.sorts[i], info.fields[i], x)
			inner.GoT = st.Field(i).Type()
			if r, ok := vc.structField(inner, name); ok {
				return r, true
			}
		}
	}
	return Term{}, false
}

func (vc *FuncVC) trIndex(e *env, n *EIndex) Term {
	x := vc.tr(e, n.X)
	i := vc.tr(e, n.I)
	switch {
	case strings.HasPrefix(x.Sort, "(Array "):
		_, vs := splitArraySort(x.Sort)
		return app(vs, "select", x, i)
	case x.Sort == "Slice":
		es := "Int"
		var et types.Type
		if x.GoT != nil {
			if st, ok := x.GoT.Underlying().(*types.Slice); ok {
				es = vc.ss.sortOf(st.Elem())
				et = st.Elem()
			}
		}
		h := vc.get(e.st(), "A:"+es, "(Array Int (Array Int "+es+"))")
		r := T(es, fmt.Sprintf("(select (select %s (s!arr %s)) %s)", h.S, x.S, ixTerm(sliceOff(x), i).S))
		r.GoT = et
		return r
	case x.Sort == "String":
		return T("Int", fmt.Sprintf("(str.to_code (str.at %s %s))", x.S, i.S))
	case x.GoT != nil:
		if mt, ok := x.GoT.Underlying().(*types.Map); ok {
			_, vk, _, vs := vc.mapKeys(x.GoT)
			vv := vc.get(e.st(), vk, vs)
			_, vinner := splitArraySort(vs)
			es := vc.ss.sortOf(mt.Elem())
			r := app(es, "select", app(vinner, "select", vv, x), i)
			r.GoT = mt.Elem()
			return r
		}
	}
	return e.fail("cannot index %s", x.S)
}

func (vc *FuncVC) trCall(e *env, n *ECall) Term {
	var args []Term
	for _, a := range n.Args {
		args = append(args, vc.tr(e, a))
	}
	switch f := n.Fun.(type) {
	case *EIdent:
		switch f.Name {
		case "len":
			a := args[0]
			switch {
			case a.Sort == "Slice":
				return app("Int", "s!len", a)
			case a.Sort == "String":
				return app("Int", "str.len", a)
			}
			return e.fail("len of %s", a.Sort)
		case "has": // has(m, k): key in map domain
			m := args[0]
			if m.GoT != nil {
				if _, ok := m.GoT.Underlying().(*types.Map); ok {
					dk, _, ds, _ := vc.mapKeys(m.GoT)
					d := vc.get(e.st(), dk, ds)
					_, dinner := splitArraySort(ds)
					return app("Bool", "select", app(dinner, "select", d, m), args[1])
				}
			}
			return e.fail("has() on non-map")
		case "typetag": // typetag("pkg.T") or typetag("*pkg.T")
			if s, ok := n.Args[0].(*EStr); ok {
				t := vc.eng.typeByName(s.V)
				if t == nil {
					return e.fail("unknown type %q", s.V)
				}
				tag := vc.ss.typeTag(t)
				if _, isI := t.Underlying().(*types.Interface); isI {
					vc.eng.noteIfaceTag(vc, tag, t)
				}
				return intLit(int64(tag))
			}
		case "implements": // implements(x, "pkg.I")
			if s, ok := n.Args[1].(*EStr); ok {
				t := vc.eng.typeByName(s.V)
				if t == nil {
					return e.fail("unknown type %q", s.V)
				}
				st := args[0].GoT
				if st == nil {
					st = types.NewInterfaceType(nil, nil)
				}
				return vc.implementsTerm(args[0], st, t)
			}
		case "bytesof": // bytesof(s): the byte string held by a []byte slice in the current state
			a := args[0]
			if a.Sort != "Slice" {
				return e.fail("bytesof needs a slice")
			}
			h := vc.get(e.st(), "A:Int", "(Array Int (Array Int Int))")
			vc.eng.needFun(vc, "bytes", []string{"(Array Int Int)", "Int", "Int"}, "Int")
			return T("Int", fmt.Sprintf("(bytes (select %s (s!arr %s)) (s!off %s) (s!len %s))", h.S, a.S, a.S, a.S))
		case "arrbytes": // arrbytes(a, n): the byte string held by the first n elements of an array value
			vc.eng.needFun(vc, "bytes", []string{"(Array Int Int)", "Int", "Int"}, "Int")
			return T("Int", fmt.Sprintf("(bytes %s 0 %s)", args[0].S, args[1].S))
		case "lenv": // lenv(v, p): length of container p under container-version v
			vc.eng.needFun(vc, "m!Len", []string{"Int", "Iface"}, "Int")
			return app("Int", "m!Len", args[0], args[1])
		case "atv": // atv(v, p, j): j-th element of container p under container-version v
			vc.eng.needFun(vc, "m!At", []string{"Int", "Iface", "Int"}, "Iface")
			return app("Iface", "m!At", args[0], args[1], args[2])
		case "cast": // cast(x, "*pkg.T"): the same value viewed with Go type T (for field access)
			if st, ok := n.Args[1].(*EStr); ok {
				t := vc.eng.typeByName(st.V)
				if t == nil {
					return e.fail("unknown type %q", st.V)
				}
				r := args[0]
				r.GoT = t
				return r
			}
		case "visited": // visited(n): the set of keys already produced by the n-th map range of this function
			if lit, ok := n.Args[0].(*EInt); ok {
				key := fmt.Sprintf("IT:%s%d", vc.cur.prefix, lit.V)
				if t, ok := e.st().vars[key]; ok {
					return t
				}
				return e.fail("no map range #%d in scope", lit.V)
			}
		case "fresh": // fresh(r): r was not allocated at function entry
			al := vc.get(e.old, "alloc", "(Array Int Bool)")
			return not(app("Bool", "select", al, args[0]))
		case "allocated": // allocated(r): r is allocated in the current state
			al := vc.get(e.st(), "alloc", "(Array Int Bool)")
			return app("Bool", "select", al, args[0])
		case "overrides": // overrides(other, "pkg.T"): the application's callback list holds a func(context.Context, T) error (see dispatch.go)
			if st, ok := n.Args[1].(*EStr); ok {
				t := vc.eng.typeByName(st.V)
				ctx := vc.eng.typeByName("context.Context")
				if t == nil || ctx == nil {
					return e.fail("unknown type %q", st.V)
				}
				errT := types.Universe.Lookup("error").Type()
				sig := types.NewSignatureType(nil, nil, nil,
					types.NewTuple(types.NewVar(0, nil, "", ctx), types.NewVar(0, nil, "", t)),
					types.NewTuple(types.NewVar(0, nil, "", errT)), false)
				vc.eng.needFun(vc, "disp!overrides", []string{"Slice", "Int"}, "Bool")
				return T("Bool", fmt.Sprintf("(disp!overrides %s %d)", args[0].S, vc.ss.typeTag(sig)))
			}
		case "domof", "valsof": // domof(m) / valsof(m): the key set / the key->value function of map m in the current state
			m := args[0]
			if m.GoT != nil {
				if _, ok := m.GoT.Underlying().(*types.Map); ok {
					dk, vk, ds, vs := vc.mapKeys(m.GoT)
					if f.Name == "domof" {
						d := vc.get(e.st(), dk, ds)
						_, dinner := splitArraySort(ds)
						return app(dinner, "select", d, m)
					}
					vv := vc.get(e.st(), vk, vs)
					_, vinner := splitArraySort(vs)
					return app(vinner, "select", vv, m)
				}
			}
			return e.fail("%s() on non-map", f.Name)
		case "fnref": // fnref("pkg.F"): the func value of the named top-level function F
			if st, ok := n.Args[0].(*EStr); ok {
				key := st.V
				if fn := vc.eng.fnByKey[key]; fn != nil {
					return vc.funcRef(fn, nil, nil)
				}
				return e.fail("unknown function %q", key)
			}
		case "asiface": // asiface(p, "*pkg.T"): the interface value holding pointer p with dynamic type *pkg.T
			if st, ok := n.Args[1].(*EStr); ok {
				t := vc.eng.typeByName(st.V)
				if t == nil {
					return e.fail("unknown type %q", st.V)
				}
				return T("Iface", fmt.Sprintf("(mkI %d %s)", vc.ss.typeTag(t), args[0].S))
			}
		case "arrof": // arrof(s): the backing array of a slice (to state that two slices do not share one)
			if args[0].Sort != "Slice" {
				return e.fail("arrof needs a slice")
			}
			return app("Int", "s!arr", args[0])
		case "deref": // deref(p): the value a pointer to a basic type points to (cell heap C:<sort>)
			if args[0].GoT != nil {
				if pt, ok := args[0].GoT.Underlying().(*types.Pointer); ok {
					es := vc.ss.sortOf(pt.Elem())
					h := vc.get(e.st(), "C:"+es, "(Array Int "+es+")")
					r := app(es, "select", h, args[0])
					r.GoT = pt.Elem()
					return r
				}
			}
			return e.fail("deref of a non-pointer")
		case "unboxas": // unboxas(x, "bool"|"float64"|...): the value held by an interface value of that dynamic type
			if st, ok := n.Args[1].(*EStr); ok {
				t := vc.eng.typeByName(st.V)
				if t == nil {
					return e.fail("unknown type %q", st.V)
				}
				r := vc.unboxPayload(app("Int", "i!pl", args[0]), vc.ss.sortOf(t))
				r.GoT = t
				if r.Sort == "Slice" && !vc.subSeen["wf:"+r.S] && !strings.Contains(r.S, "q!") {
					// type invariant of every slice value
					vc.subSeen["wf:"+r.S] = true
					vc.emit("(assert (and (>= (s!len %s) 0) (>= (s!off %s) 0) (>= (s!cap %s) (s!len %s)) (=> (= (s!arr %s) 0) (= (s!cap %s) 0))))", r.S, r.S, r.S, r.S, r.S, r.S)
				}
				return r
			}
		case "unboxstr": // unboxstr(x): the string held by an interface value of dynamic type string
			return vc.unboxPayload(app("Int", "i!pl", args[0]), "String")
		case "functag", "predtag": // functag("pkg.T"): type tag of func(context.Context, pkg.T) error; predtag: ... (bool, error)
			if s, ok := n.Args[0].(*EStr); ok {
				t := vc.eng.typeByName(s.V)
				ctx := vc.eng.typeByName("context.Context")
				if t == nil || ctx == nil {
					return e.fail("unknown type %q", s.V)
				}
				errT := types.Universe.Lookup("error").Type()
				res := types.NewTuple(types.NewVar(0, nil, "", errT))
				if f.Name == "predtag" {
					res = types.NewTuple(types.NewVar(0, nil, "", types.Typ[types.Bool]), types.NewVar(0, nil, "", errT))
				}
				sig := types.NewSignatureType(nil, nil, nil,
					types.NewTuple(types.NewVar(0, nil, "", ctx), types.NewVar(0, nil, "", t)), res, false)
				return intLit(int64(vc.ss.typeTag(sig)))
			}
		case "isnil":
			a, _ := vc.unifyNil(args[0], Term{S: "nil", Sort: nilSort})
			return eq(a, vc.ss.zero(a.Sort))
		}
		if sf, ok := vc.eng.specs.SpecFuns[f.Name]; ok {
			if len(sf.Params) != len(args) {
				return e.fail("specfun %s expects %d arguments", f.Name, len(sf.Params))
			}
			saved := map[string]*Term{}
			for _, pn := range sf.Params {
				if old, ok := e.vars[pn]; ok {
					o := old
					saved[pn] = &o
				} else {
					saved[pn] = nil
				}
			}
			for i, pn := range sf.Params {
				e.vars[pn] = args[i]
			}
			r := vc.tr(e, sf.Body)
			for k, v := range saved {
				if v == nil {
					delete(e.vars, k)
				} else {
					e.vars[k] = *v
				}
			}
			return r
		}
		if r, ok := vc.pureRepoCall(e, f.Name, args); ok {
			return r
		}
		if fd, ok := vc.eng.specs.Funs[f.Name]; ok {
			for i := range args {
				if args[i].Sort == nilSort && i < len(fd.Args) {
					args[i] = vc.ss.zero(fd.Args[i])
				}
			}
			return app(fd.Ret, f.Name, args...)
		}
		return e.fail("unknown function %s", f.Name)
	case *ESel:
		// package-qualified pure function: streams.IsOrExtendsActivityStreamsFollow(v)
		if id, ok := f.X.(*EIdent); ok {
			if _, isVar := e.vars[id.Name]; !isVar {
				if _, isLazy := e.lazy[id.Name]; !isLazy {
					if pkg := vc.eng.pkgByName(id.Name); pkg != nil {
						if _, isLocal := e.lookupLocal(id.Name); !isLocal {
							if r, ok := vc.pureStaticCall(e, pkg, f.Name, args); ok {
								return r
							}
							return e.fail("%s.%s is not a pure function with a contract", id.Name, f.Name)
						}
					}
				}
			}
		}
		// pure method application on an interface value: x.M(args)
		recv := vc.tr(e, f.X)
		var rsort string
		var rt types.Type
		var deps []string
		var pureC *Contract
		multiIdx := -1
		if recv.GoT != nil {
			ms := types.NewMethodSet(recv.GoT)
			sel := ms.Lookup(nil, f.Name)
			if sel == nil && vc.fn.Pkg != nil {
				sel = ms.Lookup(vc.fn.Pkg.Pkg, f.Name)
			}
			ridx := -1
			if sel == nil {
				// x.M_1(): the second result of a pure method with several results
				if i := strings.LastIndex(f.Name, "_"); i > 0 && i == len(f.Name)-2 && f.Name[i+1] >= '0' && f.Name[i+1] <= '9' {
					if sel = ms.Lookup(nil, f.Name[:i]); sel != nil {
						ridx = int(f.Name[i+1] - '0')
						f = &ESel{X: f.X, Name: f.Name[:i]}
					}
				}
			}
			if sel == nil {
				return e.fail("no method %s on %s", f.Name, recv.GoT)
			}
			sig := sel.Type().(*types.Signature)
			if ridx >= 0 {
				if sig.Results().Len() < 2 || ridx >= sig.Results().Len() {
					return e.fail("method %s has no result %d", f.Name, ridx)
				}
				multiIdx = ridx
			} else if sig.Results().Len() != 1 {
				return e.fail("method %s must have one result to be used in a specification", f.Name)
			} else {
				ridx = 0
			}
			rt = sig.Results().At(ridx).Type()
			rsort = vc.ss.sortOf(rt)
			// which version ghosts: from the contract of the interface method
			if c, _ := vc.lookupIfaceContract(recv.GoT, sel.Obj().(*types.Func)); c != nil {
				if c.Returns != nil {
					// result defined by an expression over the state
					saved := map[string]*Term{}
					bind := func(k string, v Term) {
						if old, ok := e.vars[k]; ok {
							o := old
							saved[k] = &o
						} else {
							saved[k] = nil
						}
						e.vars[k] = v
					}
					bind("this", recv)
					bind("$method", strLit(f.Name))
					bind("$prop", strLit(strings.TrimPrefix(strings.TrimPrefix(f.Name, "Get"), "Set")))
					for i, a := range args {
						bind(fmt.Sprintf("$arg%d", i+1), a)
					}
					r := vc.tr(e, c.Returns.E)
					for k, v := range saved {
						if v == nil {
							delete(e.vars, k)
						} else {
							e.vars[k] = *v
						}
					}
					if r.Sort == nilSort {
						r = vc.ss.zero(rsort)
					}
					r.GoT = rt
					return r
				}
				deps = pureDeps(c)
				if !c.Pure {
					return e.fail("method %s is not declared pure", f.Name)
				}
				pureC = c
			} else {
				deps = []string{"ASH", "ASHP"}
			}
		} else {
			// untyped receiver (a quantified variable): only the well-known container observers
			switch f.Name {
			case "Len":
				rsort, deps = "Int", []string{"ASHP"}
			case "At":
				rsort, deps = "Iface", []string{"ASHP"}
			case "IsIRI":
				rsort, deps = "Bool", []string{"ASH"}
			case "GetIRI":
				rsort, deps = "Int", []string{"ASH"}
			case "GetType":
				rsort, deps = "Iface", []string{"ASH"}
			default:
				return e.fail("method %s on untyped term %s", f.Name, recv.S)
			}
		}
		var as []Term
		for _, dep := range deps {
			ds := "Int"
			if gs, ok := vc.ghostSort(dep); ok {
				ds = gs
			}
			as = append(as, vc.get(e.st(), "G:"+dep, ds))
		}
		as = append(as, recv)
		as = append(as, args...)
		var sorts []string
		for _, a := range as {
			sorts = append(sorts, a.Sort)
		}
		fname := "m!" + smtIdent(f.Name)
		if multiIdx >= 0 {
			fname = fmt.Sprintf("%s!%d", fname, multiIdx)
		}
		vc.eng.needFun(vc, fname, sorts, rsort)
		r := app(rsort, fname, as...)
		r.GoT = rt
		if pureC != nil && multiIdx < 0 {
			vc.pureFacts(e, pureC, recv, args, r)
		}
		return r
	}
	return e.fail("bad call expression")
}

// pureRepoCall: name(args) or name_k(args) in a specification, where name is a function of the
// package under verification whose contract is declared pure: the k-th result of that function.
func (vc *FuncVC) pureRepoCall(e *env, name string, args []Term) (Term, bool) {
	idx := 0
	base := name
	if i := strings.LastIndex(name, "_"); i > 0 && i == len(name)-2 && name[i+1] >= '0' && name[i+1] <= '9' {
		base = name[:i]
		idx = int(name[i+1] - '0')
	}
	pkg := vc.fn.Pkg
	for p := vc.fn; pkg == nil && p != nil; p = p.Parent() {
		pkg = p.Pkg
	}
	if pkg == nil {
		return Term{}, false
	}
	key := strings.ReplaceAll(pkg.Pkg.Path(), modPrefix, "") + "." + base
	c := vc.eng.specs.Contracts[key]
	fn := vc.eng.fnByKey[key]
	if c == nil || fn == nil || !c.Pure {
		return Term{}, false
	}
	sig := fn.Signature
	if idx >= sig.Results().Len() {
		return Term{}, false
	}
	var as []Term
	var sorts []string
	for _, dep := range pureDeps(c) {
		ds := "Int"
		if gs, ok := vc.ghostSort(dep); ok {
			ds = gs
		}
		as = append(as, vc.get(e.st(), "G:"+dep, ds))
		sorts = append(sorts, ds)
	}
	for i, a := range args {
		if a.Sort == nilSort && i < sig.Params().Len() {
			a = vc.ss.zero(vc.ss.sortOf(sig.Params().At(i).Type()))
		}
		as = append(as, a)
		sorts = append(sorts, a.Sort)
	}
	fname := "f!" + smtIdent(key)
	if sig.Results().Len() > 1 {
		fname = fmt.Sprintf("%s!%d", fname, idx)
	}
	rt := sig.Results().At(idx).Type()
	vc.eng.needFun(vc, fname, sorts, vc.ss.sortOf(rt))
	r := app(vc.ss.sortOf(rt), fname, as...)
	r.GoT = rt
	return r, true
}

// pureFacts: a specification that applies a pure method also gets that method's (assumed or
// proved) postconditions for this very application, e.g. p.Len() >= 0. Skipped for terms that
// mention a bound variable.
func (vc *FuncVC) pureFacts(e *env, c *Contract, recv Term, args []Term, result Term) {
	if len(c.Ens) == 0 || strings.Contains(result.S, "q!") || e.depth > 2 {
		return
	}
	key := "purefact:" + result.S
	if vc.subSeen[key] {
		return
	}
	vc.subSeen[key] = true
	e2 := vc.newEnv(e.st(), e.st(), e.pos)
	e2.depth = e.depth + 1
	e2.noLocals = true
	e2.vars["this"] = recv
	e2.vars["result"] = result
	e2.vars["result0"] = result
	for i, a := range args {
		e2.vars[fmt.Sprintf("$arg%d", i+1)] = a
	}
	for _, en := range c.Ens {
		if !en.active(vc.prop) {
			continue
		}
		n := len(vc.specErrors)
		f := vc.tr(e2, en.E)
		if len(vc.specErrors) > n {
			vc.specErrors = vc.specErrors[:n] // a clause not expressible out of call context: skip it
			continue
		}
		if strings.Contains(f.S, "q!") && !strings.Contains(f.S, "(forall") {
			continue
		}
		vc.emit("(assert %s)", f.S)
	}
}

// pureStaticCall applies a pure (contracted or schema) package-level function in a specification.
func (vc *FuncVC) pureStaticCall(e *env, pkg *ssa.Package, name string, args []Term) (Term, bool) {
	key := strings.ReplaceAll(pkg.Pkg.Path(), modPrefix, "") + "." + name
	fn := vc.eng.fnByKey[key]
	idx := -1
	if fn == nil {
		// pkg.F_1(x): the second result of a pure function with several results
		if i := strings.LastIndex(name, "_"); i > 0 && i == len(name)-2 && name[i+1] >= '0' && name[i+1] <= '9' {
			key = strings.ReplaceAll(pkg.Pkg.Path(), modPrefix, "") + "." + name[:i]
			fn = vc.eng.fnByKey[key]
			idx = int(name[i+1] - '0')
		}
	}
	if fn == nil {
		return Term{}, false
	}
	if idx >= 0 {
		c := vc.eng.specs.Contracts[key]
		if c == nil || !c.Pure || idx >= fn.Signature.Results().Len() || fn.Signature.Results().Len() < 2 {
			return Term{}, false
		}
		var as []Term
		var sorts []string
		for _, dep := range pureDeps(c) {
			ds := "Int"
			if gs, ok := vc.ghostSort(dep); ok {
				ds = gs
			}
			as = append(as, vc.get(e.st(), "G:"+dep, ds))
			sorts = append(sorts, ds)
		}
		for i, a := range args {
			if a.Sort == nilSort && i < fn.Signature.Params().Len() {
				a = vc.ss.zero(vc.ss.sortOf(fn.Signature.Params().At(i).Type()))
			}
			as = append(as, a)
			sorts = append(sorts, a.Sort)
		}
		fname := fmt.Sprintf("f!%s!%d", smtIdent(key), idx)
		rt := fn.Signature.Results().At(idx).Type()
		vc.eng.needFun(vc, fname, sorts, vc.ss.sortOf(rt))
		r := app(vc.ss.sortOf(rt), fname, as...)
		r.GoT = rt
		return r, true
	}
	c := vc.eng.specs.Contracts[key]
	if c == nil {
		c = vc.eng.specs.schemaFor(key)
	}
	if c == nil || !c.Pure || fn.Signature.Results().Len() != 1 {
		return Term{}, false
	}
	var as []Term
	var sorts []string
	for _, dep := range pureDeps(c) {
		ds := "Int"
		if gs, ok := vc.ghostSort(dep); ok {
			ds = gs
		}
		as = append(as, vc.get(e.st(), "G:"+dep, ds))
		sorts = append(sorts, ds)
	}
	for i, a := range args {
		if a.Sort == nilSort && i < fn.Signature.Params().Len() {
			a = vc.ss.zero(vc.ss.sortOf(fn.Signature.Params().At(i).Type()))
		}
		as = append(as, a)
		sorts = append(sorts, a.Sort)
	}
	fname := "f!" + smtIdent(key)
	rt := fn.Signature.Results().At(0).Type()
	vc.eng.needFun(vc, fname, sorts, vc.ss.sortOf(rt))
	r := app(vc.ss.sortOf(rt), fname, as...)
	r.GoT = rt
	return r, true
}
