package main

import (
	"sync"
	"fmt"
	"go/types"
	"sort"
	"strings"
)

// Term is an SMT-LIB term with its sort and, where it stands for a Go value,
// the Go type (used to resolve field access in specifications).
type Term struct {
	S    string
	Sort string
	GoT  types.Type
}

func T(sort, s string) Term { return Term{S: s, Sort: sort} }

var (
	tTrue  = Term{S: "true", Sort: "Bool"}
	tFalse = Term{S: "false", Sort: "Bool"}
)

func app(sort, f string, args ...Term) Term {
	if len(args) == 0 {
		return T(sort, f)
	}
	var b strings.Builder
	b.WriteString("(")
	b.WriteString(f)
	for _, a := range args {
		b.WriteString(" ")
		b.WriteString(a.S)
	}
	b.WriteString(")")
	return T(sort, b.String())
}

func and(ts ...Term) Term {
	var xs []Term
	for _, t := range ts {
		if t.S == "true" {
			continue
		}
		if t.S == "false" {
			return tFalse
		}
		xs = append(xs, t)
	}
	if len(xs) == 0 {
		return tTrue
	}
	if len(xs) == 1 {
		return xs[0]
	}
	return app("Bool", "and", xs...)
}

func or(ts ...Term) Term {
	var xs []Term
	for _, t := range ts {
		if t.S == "false" {
			continue
		}
		if t.S == "true" {
			return tTrue
		}
		xs = append(xs, t)
	}
	if len(xs) == 0 {
		return tFalse
	}
	if len(xs) == 1 {
		return xs[0]
	}
	return app("Bool", "or", xs...)
}

func not(t Term) Term {
	if t.S == "true" {
		return tFalse
	}
	if t.S == "false" {
		return tTrue
	}
	if strings.HasPrefix(t.S, "(not ") {
		return T("Bool", t.S[5:len(t.S)-1])
	}
	return app("Bool", "not", t)
}

func imp(a, b Term) Term {
	if a.S == "true" {
		return b
	}
	if a.S == "false" || b.S == "true" {
		return tTrue
	}
	return app("Bool", "=>", a, b)
}

func ite(c, a, b Term) Term {
	if c.S == "true" {
		return a
	}
	if c.S == "false" {
		return b
	}
	if a.S == b.S {
		return a
	}
	r := app(a.Sort, "ite", c, a, b)
	r.GoT = a.GoT
	return r
}

func eq(a, b Term) Term {
	if a.S == b.S {
		return tTrue
	}
	return app("Bool", "=", a, b)
}

func intLit(n int64) Term {
	if n < 0 {
		return T("Int", fmt.Sprintf("(- %d)", -n))
	}
	return T("Int", fmt.Sprintf("%d", n))
}

func strLit(s string) Term {
	var b strings.Builder
	b.WriteByte('"')
	for _, r := range s {
		switch {
		case r == '"':
			b.WriteString(`""`)
		case r == '\\':
			b.WriteString(`\u{5c}`)
		case r < 0x20 || r > 0x7e:
			fmt.Fprintf(&b, `\u{%x}`, r)
		default:
			b.WriteRune(r)
		}
	}
	b.WriteByte('"')
	return T("String", b.String())
}

// smtIdent makes a string usable as an SMT simple symbol.
func smtIdent(s string) string {
	var b strings.Builder
	for _, r := range s {
		switch {
		case r >= 'a' && r <= 'z', r >= 'A' && r <= 'Z', r >= '0' && r <= '9', r == '_', r == '.', r == '$', r == '!':
			b.WriteRune(r)
		default:
			b.WriteByte('_')
		}
	}
	return b.String()
}

// ---------------------------------------------------------------------------
// Sorts for Go types

type Sorts struct {
	structs   map[string]*structInfo // by datatype name
	order     []string               // declaration order of struct datatypes
	byType    map[types.Type]string
	tags      map[string]int // type tag numbers by type string
	tagTypes  []types.Type
	arraySort map[string]bool
}

type structInfo struct {
	name   string
	st     *types.Struct
	fields []string // selector names
	sorts  []string
}

func newSorts() *Sorts {
	return &Sorts{structs: map[string]*structInfo{}, byType: map[types.Type]string{}, tags: map[string]int{}}
}

const modPrefix = "github.com/go-fed/activity/"

var normCache sync.Map // types.Type -> string (type strings of the generated structs are long; they are asked for constantly)

func normType(t types.Type) string {
	if v, ok := normCache.Load(t); ok {
		return v.(string)
	}
	s := types.TypeString(t, func(p *types.Package) string { return p.Path() })
	s = strings.ReplaceAll(s, modPrefix, "")
	normCache.Store(t, s)
	return s
}

func (ss *Sorts) sortOf(t types.Type) string {
	if s, ok := ss.byType[t]; ok {
		return s
	}
	var s string
	switch u := t.Underlying().(type) {
	case *types.Basic:
		switch {
		case u.Info()&types.IsBoolean != 0:
			s = "Bool"
		case u.Info()&types.IsString != 0:
			s = "String"
		case u.Info()&types.IsInteger != 0:
			s = "Int"
		case u.Info()&types.IsFloat != 0:
			s = "Real"
		case u.Kind() == types.UnsafePointer:
			s = "Int"
		case u.Kind() == types.UntypedNil:
			s = "Int"
		default:
			s = "Int"
		}
	case *types.Pointer, *types.Map, *types.Chan, *types.Signature:
		s = "Int"
	case *types.Interface:
		s = "Iface"
	case *types.Slice:
		s = "Slice"
	case *types.Array:
		s = "(Array Int " + ss.sortOf(u.Elem()) + ")"
	case *types.Struct:
		s = ss.structSort(t, u)
	case *types.Tuple:
		s = "Tuple"
	default:
		s = "Int"
	}
	ss.byType[t] = s
	return s
}

func (ss *Sorts) structSort(t types.Type, st *types.Struct) string {
	name := "St_" + smtIdent(normType(t))
	if _, isNamed := t.(*types.Named); !isNamed {
		name = fmt.Sprintf("St_anon%d", len(ss.structs))
	}
	if _, ok := ss.structs[name]; ok {
		return name
	}
	info := &structInfo{name: name, st: st}
	ss.structs[name] = info // guard recursion
	for i := 0; i < st.NumFields(); i++ {
		f := st.Field(i)
		info.fields = append(info.fields, fmt.Sprintf("%s!%s", name, smtIdent(f.Name())))
		info.sorts = append(info.sorts, ss.sortOf(f.Type()))
	}
	ss.order = append(ss.order, name)
	return name
}

func (ss *Sorts) structInfoOf(t types.Type) *structInfo {
	st, ok := t.Underlying().(*types.Struct)
	if !ok {
		return nil
	}
	n := ss.structSort(t, st)
	return ss.structs[n]
}

// typeTag returns the integer tag (>0) standing for a dynamic type.
// tagKey is normType except that parameter and result names of func types are dropped
// (func(ctx T) and func(T) are the same Go type).
func tagKey(t types.Type) string {
	switch u := t.(type) {
	case *types.Signature:
		tup := func(tp *types.Tuple, variadic bool) string {
			var xs []string
			for i := 0; i < tp.Len(); i++ {
				x := tagKey(tp.At(i).Type())
				if variadic && i == tp.Len()-1 {
					x = "..." + strings.TrimPrefix(x, "[]")
				}
				xs = append(xs, x)
			}
			return strings.Join(xs, ", ")
		}
		r := ""
		switch u.Results().Len() {
		case 0:
		case 1:
			r = " " + tup(u.Results(), false)
		default:
			r = " (" + tup(u.Results(), false) + ")"
		}
		return "func(" + tup(u.Params(), u.Variadic()) + ")" + r
	case *types.Pointer:
		return "*" + tagKey(u.Elem())
	case *types.Slice:
		return "[]" + tagKey(u.Elem())
	}
	return normType(t)
}

func (ss *Sorts) typeTag(t types.Type) int {
	k := tagKey(t)
	if n, ok := ss.tags[k]; ok {
		return n
	}
	n := len(ss.tags) + 1
	ss.tags[k] = n
	ss.tagTypes = append(ss.tagTypes, t)
	return n
}

func (ss *Sorts) declStructs() string {
	var b strings.Builder
	for _, n := range ss.order {
		info := ss.structs[n]
		if len(info.fields) == 0 {
			fmt.Fprintf(&b, "(declare-datatypes ((%s 0)) (((mk!%s))))\n", n, n)
			continue
		}
		fmt.Fprintf(&b, "(declare-datatypes ((%s 0)) (((mk!%s", n, n)
		for i, f := range info.fields {
			fmt.Fprintf(&b, " (%s %s)", f, info.sorts[i])
		}
		b.WriteString("))))\n")
	}
	return b.String()
}

// zero value of a sort
func (ss *Sorts) zero(sort string) Term {
	switch sort {
	case "Int":
		return T("Int", "0")
	case "Bool":
		return tFalse
	case "String":
		return T("String", `""`)
	case "Real":
		return T("Real", "0.0")
	case "Iface":
		return T("Iface", "(mkI 0 0)")
	case "Slice":
		return T("Slice", "(mkS 0 0 0 0)")
	}
	if info, ok := ss.structs[sort]; ok {
		if len(info.fields) == 0 {
			return T(sort, "mk!"+sort)
		}
		var args []Term
		for _, fs := range info.sorts {
			args = append(args, ss.zero(fs))
		}
		return app(sort, "mk!"+sort, args...)
	}
	if strings.HasPrefix(sort, "(Array ") {
		// (Array K V) -> const array of zero V
		k, v := splitArraySort(sort)
		_ = k
		return T(sort, fmt.Sprintf("((as const %s) %s)", sort, ss.zero(v).S))
	}
	return T(sort, "0")
}

func splitArraySort(s string) (string, string) {
	// s = "(Array K V)"
	body := s[len("(Array ") : len(s)-1]
	depth := 0
	for i, r := range body {
		switch r {
		case '(':
			depth++
		case ')':
			depth--
		case ' ':
			if depth == 0 {
				return body[:i], body[i+1:]
			}
		}
	}
	return body, "Int"
}

func sortedKeys[V any](m map[string]V) []string {
	var ks []string
	for k := range m {
		ks = append(ks, k)
	}
	sort.Strings(ks)
	return ks
}

// splitArgs splits "(f a b c)" into its top-level arguments.
func splitArgs(t string) (string, []string) {
	if len(t) < 2 || t[0] != '(' {
		return t, nil
	}
	body := t[1 : len(t)-1]
	var parts []string
	depth, start := 0, 0
	inStr := false
	for i := 0; i < len(body); i++ {
		c := body[i]
		switch {
		case c == '"':
			inStr = !inStr
		case inStr:
		case c == '(':
			depth++
		case c == ')':
			depth--
		case c == ' ' && depth == 0:
			if i > start {
				parts = append(parts, body[start:i])
			}
			start = i + 1
		}
	}
	if start < len(body) {
		parts = append(parts, body[start:])
	}
	if len(parts) == 0 {
		return t, nil
	}
	return parts[0], parts[1:]
}

// sliceOff is (s!off sl), read off directly when sl is an explicit (mkS arr off len cap).
func sliceOff(sl Term) Term {
	if strings.HasPrefix(sl.S, "(mkS ") {
		if f, as := splitArgs(sl.S); f == "mkS" && len(as) == 4 {
			return T("Int", as[1])
		}
	}
	return app("Int", "s!off", sl)
}

// ixTerm is the index off+i into the backing array of a slice. Kept as the uninterpreted (ix off i)
// (defined by an axiom with that pattern) so that quantified statements about slice elements have a
// trigger without arithmetic in it; folded when the offset is the literal 0.
func ixTerm(off, i Term) Term {
	if off.S == "0" {
		return i
	}
	return T("Int", fmt.Sprintf("(ix %s %s)", off.S, i.S))
}
