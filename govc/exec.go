package main

import (
	"fmt"
	"go/token"
	"go/types"
	"sort"
	"strings"

	"golang.org/x/tools/go/ssa"
)

func fnKey(fn *ssa.Function) string {
	s := fn.String()
	return strings.ReplaceAll(s, modPrefix, "")
}

// ---------------------------------------------------------------------------
// driver for one function

func (vc *FuncVC) reset() {
	vc.declOrder = nil
	vc.declared = map[string]string{}
	vc.items = nil
	vc.topBlock = nil
	vc.reachTo = nil
	vc.obls = nil
	vc.regs = map[ssa.Value]Term{}
	vc.addrs = map[ssa.Value]*Addr{}
	vc.tuples = map[ssa.Value][]Term{}
	vc.closures = map[string]*closureInfo{}
	vc.fresh = map[string]bool{}
	vc.init = &State{pc: tTrue, vars: map[string]Term{}}
	vc.nfresh = 0
	vc.params = map[string]Term{}
	vc.paramList = nil
	vc.outside = nil
	vc.uncontracted = map[string]bool{}
	vc.assumedUsed = map[string]bool{}
	vc.writesSeen = map[string]bool{}
	vc.usedContracts = map[string]bool{}
	vc.subSeen = map[string]bool{}
	vc.freshList = nil
	vc.entryRefs = nil
	vc.counters = map[string]int{}
	vc.lastCallbacks = nil
	vc.notes = nil
}

func (vc *FuncVC) analyzeCFG() {
	vc.frames = map[*ssa.Function]*frame{}
	vc.cur = vc.frameOf(vc.fn, vc.c, false)
}

// frameOf analyses fn once (loops, call/return ordinals, defer sites).
func (vc *FuncVC) frameOf(fn *ssa.Function, c *Contract, inlined bool) *frame {
	if f, ok := vc.frames[fn]; ok {
		return f
	}
	fr := &frame{fn: fn, c: c, inlined: inlined}
	if inlined {
		fr.prefix = fmt.Sprintf("inline:%s/", fnKey(fn))
	}
	vc.frames[fn] = fr
	vc.analyzeFrame(fr)
	return fr
}

func (vc *FuncVC) analyzeFrame(fr *frame) {
	fn := fr.fn
	fr.loops = map[*ssa.BasicBlock]*loopInfo{}
	// back edges
	for _, b := range fn.Blocks {
		for _, s := range b.Succs {
			if s.Dominates(b) {
				li := fr.loops[s]
				if li == nil {
					li = &loopInfo{header: s, blocks: map[*ssa.BasicBlock]bool{s: true}, writes: map[string]bool{}}
					fr.loops[s] = li
				}
				li.backs = append(li.backs, b)
				// natural loop body
				stack := []*ssa.BasicBlock{b}
				for len(stack) > 0 {
					x := stack[len(stack)-1]
					stack = stack[:len(stack)-1]
					if li.blocks[x] {
						continue
					}
					li.blocks[x] = true
					for _, p := range x.Preds {
						stack = append(stack, p)
					}
				}
			}
		}
	}
	var hs []*ssa.BasicBlock
	for h := range fr.loops {
		hs = append(hs, h)
	}
	sort.Slice(hs, func(i, j int) bool { return hs[i].Index < hs[j].Index })
	for i, h := range hs {
		li := fr.loops[h]
		li.ord = i + 1
		if fr.c != nil {
			li.spec = fr.c.Loops[li.ord]
			if li.spec == nil {
				li.spec = fr.c.Loops[0]
			}
		}
		for _, in := range h.Instrs {
			if in.Pos().IsValid() {
				li.pos = in.Pos()
				break
			}
		}
		if !li.pos.IsValid() {
			for _, bb := range fn.Blocks {
				if li.blocks[bb] {
					for _, in := range bb.Instrs {
						if in.Pos().IsValid() && !li.pos.IsValid() {
							li.pos = in.Pos()
						}
					}
				}
			}
		}
	}
	for _, li := range fr.loops {
		li.unroll = literalRangeLen(li)
	}
	// call ordinals per callee key, return ordinals, defer sites
	fr.callOrd = map[ssa.Instruction]int{}
	fr.callKeyOf = map[ssa.Instruction]string{}
	fr.retOrd = map[*ssa.BasicBlock]int{}
	fr.deferInLoop = map[*ssa.Defer]bool{}
	fr.deferSites = nil
	type site struct {
		in  ssa.Instruction
		key string
		pos token.Pos
		seq int
	}
	var sites []site
	seq := 0
	nret := 0
	for _, b := range fn.Blocks {
		if b.Comment == "recover" {
			continue
		}
		for _, in := range b.Instrs {
			seq++
			switch x := in.(type) {
			case *ssa.Call:
				sites = append(sites, site{in, vc.calleeName(&x.Call), x.Pos(), seq})
			case *ssa.Defer:
				sites = append(sites, site{in, vc.calleeName(&x.Call), x.Pos(), seq})
				fr.deferSites = append(fr.deferSites, x)
				for _, li := range fr.loops {
					if li.blocks[b] {
						fr.deferInLoop[x] = true
					}
				}
			case *ssa.Return:
				nret++
				fr.retOrd[b] = nret
			}
		}
	}
	sort.SliceStable(sites, func(i, j int) bool {
		if sites[i].pos.IsValid() && sites[j].pos.IsValid() && sites[i].pos != sites[j].pos {
			return sites[i].pos < sites[j].pos
		}
		return sites[i].seq < sites[j].seq
	})
	cnt := map[string]int{}
	for _, s := range sites {
		cnt[s.key]++
		fr.callOrd[s.in] = cnt[s.key]
		fr.callKeyOf[s.in] = s.key
	}
}

// calleeName gives the stable name of a call target used in obligation names
// and "at call X#n" site references.
func (vc *FuncVC) calleeName(c *ssa.CallCommon) string {
	if c.IsInvoke() {
		return shortType(c.Value.Type()) + "." + c.Method.Name()
	}
	switch f := c.Value.(type) {
	case *ssa.Function:
		return shortFn(fnKey(f))
	case *ssa.Builtin:
		return "builtin." + f.Name()
	case *ssa.MakeClosure:
		return shortFn(fnKey(f.Fn.(*ssa.Function)))
	}
	// dynamic call: name after the source of the value
	return "dyn." + vc.dynName(c.Value)
}

func (vc *FuncVC) dynName(v ssa.Value) string {
	switch x := v.(type) {
	case *ssa.UnOp:
		return vc.dynName(x.X)
	case *ssa.Alloc:
		return x.Comment
	case *ssa.FieldAddr:
		st := x.X.Type().Underlying().(*types.Pointer).Elem().Underlying().(*types.Struct)
		return st.Field(x.Field).Name()
	case *ssa.Field:
		st := x.X.Type().Underlying().(*types.Struct)
		return st.Field(x.Field).Name()
	case *ssa.FreeVar:
		return x.Name()
	case *ssa.Parameter:
		return x.Name()
	case *ssa.Index:
		return "elem"
	}
	return "value"
}

func shortType(t types.Type) string {
	s := normType(t)
	return s
}

func shortFn(k string) string { return k }

func (vc *FuncVC) run() {
	vc.analyzeCFG()
	// pass 1: dry run to learn what each loop writes (also discovers the frames of inlined callees)
	vc.reset()
	vc.dry = true
	vc.execute()
	vc.dry = false
	vc.reset()
	vc.execute()
}

type edge struct{ from, to int }

type edgeF struct {
	fn       *ssa.Function
	from, to int
}

func (vc *FuncVC) execute() {
	fn := vc.fn
	if len(fn.Blocks) == 0 {
		return
	}
	s := &State{pc: tTrue, vars: map[string]Term{}}
	vc.entry = vc.init
	// the pending-deferred-Unlock set models this invocation's defer stack: empty at entry
	if _, ok := vc.ghostSort("deferredUnlock"); ok {
		s.vars["G:deferredUnlock"] = vc.ss.zero("(Array String Bool)")
		vc.init.vars["G:deferredUnlock"] = vc.ss.zero("(Array String Bool)")
	}
	// parameters
	penv := map[string]Term{}
	vc.initReplay()
	for _, p := range fn.Params {
		t := T(vc.ss.sortOf(p.Type()), "p!"+smtIdent(p.Name()))
		t.GoT = p.Type()
		vc.declare(t.S, t.Sort)
		vc.regs[p] = t
		penv[p.Name()] = t
		vc.paramList = append(vc.paramList, t)
		if vc.replayable {
			vc.paramWatch = append(vc.paramWatch, vc.watchOf(fmt.Sprintf("param%d:%s", len(vc.paramList)-1, p.Name()), t, p.Type())...)
		}
		vc.typeFacts(tTrue, t, p.Type())
		// whatever a parameter refers to existed before this invocation
		al := vc.get(vc.init, "alloc", "(Array Int Bool)")
		switch p.Type().Underlying().(type) {
		case *types.Pointer, *types.Map:
			vc.emit("(assert (or (= %s 0) (select %s %s)))", t.S, al.S, t.S)
			vc.entryRefs = append(vc.entryRefs, t)
		case *types.Slice:
			vc.emit("(assert (or (= (s!arr %s) 0) (select %s (s!arr %s))))", t.S, al.S, t.S)
			vc.entryRefs = append(vc.entryRefs, app("Int", "s!arr", t))
		}
	}
	for _, fv := range fn.FreeVars {
		t := T("Int", "fv!"+smtIdent(fv.Name()))
		t.GoT = fv.Type()
		vc.declare(t.S, "Int")
		vc.regs[fv] = t
		vc.emit("(assert (> %s 0))", t.S)
		// the captured variable's value at entry has the invariants of its Go type (slice lengths are not negative)
		if pt, ok := fv.Type().Underlying().(*types.Pointer); ok {
			if _, isSl := pt.Elem().Underlying().(*types.Slice); isSl {
				h := vc.get(s, "C:Slice", "(Array Int Slice)")
				v := app("Slice", "select", h, t)
				vc.typeFacts(tTrue, v, pt.Elem())
			}
		}
	}
	// names the contract was written with (a "params" line) are bound positionally too, so that a
	// parameter rename in the source does not invalidate the contract
	if vc.c != nil {
		for i, n := range vc.c.Params {
			if i < len(vc.paramList) && n != "" && n != "_" {
				if _, ok := penv[n]; !ok {
					penv[n] = vc.paramList[i]
				}
			}
		}
	}
	vc.params = penv
	vc.lets = map[string]Term{}
	// requires
	if vc.c != nil {
		e := vc.newEnv(s, s, fn.Pos())
		vc.bindFreeVars(e, s, fn, func(fv *ssa.FreeVar) Term { return vc.regs[fv] })
		for k, v := range penv {
			e.vars[k] = v
		}
		for _, l := range vc.c.Lets {
			t := vc.tr(e, l.E)
			got := t.GoT
			t = vc.nameTermMin(t, "let_"+l.Name, 40)
			t.GoT = got
			vc.lets[l.Name] = t
			e.vars[l.Name] = t
		}
		for _, cl := range vc.c.Req {
			if cl.active(vc.prop) {
				f := vc.tr(e, cl.E)
				vc.assume(tTrue, f)
			}
		}
	}
	vc.axioms(s)
	vc.cover("entry", fn.Pos(), tTrue)

	vc.runFrame(vc.cur, s)
}

// runFrame executes the blocks of the current frame's function from state s.
func (vc *FuncVC) runFrame(fr *frame, s *State) {
	// block order: reverse postorder over forward edges
	order := vc.rpo()
	in := map[edge][]*State{}
	done := map[*ssa.BasicBlock]bool{}
	for _, b := range order {
		if done[b] {
			continue
		}
		var st *State
		if !fr.inlined {
			vc.topBlock = b
		}
		if b.Index == 0 {
			st = s
		} else {
			st = vc.incoming(b, in)
			if st == nil {
				continue
			}
		}
		if li := vc.cur.loops[b]; li != nil && li.unroll > 0 {
			vc.unrollLoop(fr, li, st, in, order)
			for lb := range li.blocks {
				done[lb] = true
			}
			continue
		}
		vc.stepBlock(fr, b, st, in, nil)
	}
}

// incoming merges the states on the forward edges into b.
func (vc *FuncVC) incoming(b *ssa.BasicBlock, in map[edge][]*State) *State {
	var ins []*State
	for _, p := range b.Preds {
		if li := vc.cur.loops[b]; li != nil && li.blocks[p] && b.Dominates(p) {
			continue // back edge
		}
		ins = append(ins, in[edge{p.Index, b.Index}]...)
		delete(in, edge{p.Index, b.Index})
	}
	if len(ins) == 0 {
		return nil
	}
	return vc.merge(ins, fmt.Sprintf("B%d", b.Index))
}

// stepBlock executes one block from state st and files the successor states. When unrolling
// is non-nil, edges back to its header are collected there instead of being cut.
func (vc *FuncVC) stepBlock(fr *frame, b *ssa.BasicBlock, st *State, in map[edge][]*State, unrolling *unrollCtx) {
	vc.curBlock = b
	if li := vc.cur.loops[b]; li != nil && (unrolling == nil || unrolling.li != li) {
		vc.loopHead(li, st)
	}
	outs := vc.execBlock(b, st)
	for i, succ := range b.Succs {
		if i >= len(outs) || outs[i] == nil {
			continue
		}
		if unrolling != nil && succ == unrolling.li.header {
			unrolling.next = append(unrolling.next, outs[i])
			vc.edgePC[edgeF{fr.fn, b.Index, succ.Index}] = outs[i].pc
			continue
		}
		if li := vc.cur.loops[succ]; li != nil && li.blocks[b] && succ.Dominates(b) {
			vc.loopBack(li, outs[i], b)
			continue
		}
		in[edge{b.Index, succ.Index}] = append(in[edge{b.Index, succ.Index}], outs[i])
		vc.edgePC[edgeF{fr.fn, b.Index, succ.Index}] = outs[i].pc
	}
}

type unrollCtx struct {
	li   *loopInfo
	next []*State
}

// unrollLoop executes a loop whose trip count is a compile-time constant (a range over a slice
// literal) exactly: li.unroll+1 passes over its blocks, no invariant, no havoc.
func (vc *FuncVC) unrollLoop(fr *frame, li *loopInfo, st *State, in map[edge][]*State, order []*ssa.BasicBlock) {
	cur := st
	for pass := 0; pass <= li.unroll+1 && cur != nil; pass++ {
		ctx := &unrollCtx{li: li}
		for _, b := range order {
			if !li.blocks[b] {
				continue
			}
			var bs *State
			if b == li.header {
				bs = cur
			} else {
				bs = vc.incoming(b, in)
				if bs == nil {
					continue
				}
			}
			vc.stepBlock(fr, b, bs, in, ctx)
		}
		if len(ctx.next) == 0 {
			cur = nil
		} else {
			cur = vc.merge(ctx.next, fmt.Sprintf("unroll%d_%d", li.ord, pass))
		}
	}
	if cur != nil && !vc.dry {
		// more iterations than the literal has elements: impossible
		vc.oblige("unroll", fmt.Sprintf("loop%d/unroll-complete", li.ord), "the literal range loop ends after its constant number of iterations", li.pos, cur.pc, tFalse)
	}
}

func (vc *FuncVC) rpo() []*ssa.BasicBlock {
	seen := map[*ssa.BasicBlock]bool{}
	var post []*ssa.BasicBlock
	var dfs func(b *ssa.BasicBlock)
	dfs = func(b *ssa.BasicBlock) {
		seen[b] = true
		for _, s := range b.Succs {
			if seen[s] {
				continue
			}
			if s.Dominates(b) { // back edge
				continue
			}
			dfs(s)
		}
		post = append(post, b)
	}
	dfs(vc.cur.fn.Blocks[0])
	for i, j := 0, len(post)-1; i < j; i, j = i+1, j-1 {
		post[i], post[j] = post[j], post[i]
	}
	// the DFS postorder reversal is a topological order of the forward-edge DAG
	return post
}

func (vc *FuncVC) merge(ins []*State, hint string) *State {
	if len(ins) == 1 {
		return ins[0].clone()
	}
	var pcs []Term
	for _, x := range ins {
		pcs = append(pcs, x.pc)
	}
	pc := vc.freshConst("pc_"+hint, "Bool")
	vc.emit("(assert (= %s %s))", pc.S, or(pcs...).S)
	out := &State{pc: pc, vars: map[string]Term{}}
	keys := map[string]bool{}
	for _, x := range ins {
		for k := range x.vars {
			keys[k] = true
		}
	}
	for _, k := range sortedKeysB(keys) {
		var vals []Term
		same := true
		for _, x := range ins {
			v, ok := x.vars[k]
			if !ok {
				v, ok = vc.init.vars[k]
				if !ok {
					// key unknown on this path: it was never read or written there; use a lazily declared initial value
					var sortGuess string
					for _, y := range ins {
						if t, ok2 := y.vars[k]; ok2 {
							sortGuess = t.Sort
						}
					}
					if strings.HasPrefix(k, "L:") || strings.HasPrefix(k, "D:") || strings.HasPrefix(k, "DA:") || strings.HasPrefix(k, "IT:") {
						v = vc.ss.zero(sortGuess)
					} else {
						v = vc.get(x, k, sortGuess)
					}
				}
			}
			vals = append(vals, v)
			if v.S != vals[0].S {
				same = false
			}
		}
		if same {
			out.vars[k] = vals[0]
			continue
		}
		m := vc.freshConst("m_"+k, vals[0].Sort)
		m.GoT = vals[0].GoT
		for i, x := range ins {
			vc.emit("(assert (=> %s (= %s %s)))", x.pc.S, m.S, vals[i].S)
		}
		out.vars[k] = m
	}
	return out
}

func sortedKeysCW(m map[string][]ssa.Value) []string {
	var ks []string
	for k := range m {
		ks = append(ks, k)
	}
	sort.Strings(ks)
	return ks
}

func sortedKeysB(m map[string]bool) []string {
	var ks []string
	for k := range m {
		ks = append(ks, k)
	}
	sort.Strings(ks)
	return ks
}

// ---------------------------------------------------------------------------
// loops

func (vc *FuncVC) loopHead(li *loopInfo, s *State) {
	name := fmt.Sprintf("loop%d", li.ord)
	e := vc.newEnv(s, vc.entry, li.pos)
	vc.bindRangeIndex(e, li, s)
	if li.spec != nil {
		for i, cl := range li.spec.Inv {
			if !cl.active(vc.prop) {
				continue
			}
			f := vc.tr(e, cl.E)
			vc.oblige("inv.init", fmt.Sprintf("%s/inv.init:%s", name, clauseName(cl, i)), cl.Src, li.pos, s.pc, f)
		}
	}
	// automatic frame invariant: heap locations that the function does not declare in its
	// modifies clause keep, at every reference allocated at function entry, their entry value
	var frameKeys []string
	if !vc.dry {
		for _, k := range sortedKeysB(li.writes) {
			if vc.isHeapKey(k) && !vc.declaredMod(k) {
				if cur, ok := s.vars[k]; ok {
					init := vc.get(vc.init, k, cur.Sort)
					if cur.S != init.S {
						vc.oblige("inv.init", fmt.Sprintf("%s/inv.init:frame:%s", name, k), "unchanged(allocated at entry) "+k, li.pos, s.pc, vc.frameFormula(cur, init))
					}
				}
				frameKeys = append(frameKeys, k)
			}
		}
		li.frameKeys = frameKeys
	}
	// havoc what the loop writes
	type hv struct {
		k string
		t Term
	}
	var havocked []hv
	if vc.dry {
		li.writes = map[string]bool{}
	} else {
		for _, k := range sortedKeysB(li.writes) {
			old, ok := s.vars[k]
			if !ok {
				if iv, ok2 := vc.init.vars[k]; ok2 {
					old = iv
				} else if srt, ok3 := vc.sortOfKey(k); ok3 {
					old = vc.get(s, k, srt)
				} else if gs, ok4 := vc.ghostSort(strings.TrimPrefix(k, "G:")); ok4 && strings.HasPrefix(k, "G:") {
					old = vc.get(s, k, gs)
				} else {
					continue // local not yet allocated: defined inside the loop
				}
			}
			nv := vc.freshConst(fmt.Sprintf("h%d_%s", li.ord, k), old.Sort)
			nv.GoT = old.GoT
			s.vars[k] = nv
			if k == "alloc" {
				// allocation only grows: stated pointwise (quantifier-free) for every reference this
				// invocation has allocated so far and for what its parameters refer to
				for _, r := range vc.freshList {
					vc.emit("(assert (=> (select %s %s) (select %s %s)))", old.S, r.S, nv.S, r.S)
				}
				for _, r := range vc.entryRefs {
					vc.emit("(assert (=> (select %s %s) (select %s %s)))", old.S, r.S, nv.S, r.S)
				}
				if vc.useQuantSlices {
					vc.emit("(assert (forall ((r!q Int)) (! (=> (select %s r!q) (select %s r!q)) :pattern ((select %s r!q)))))", old.S, nv.S, nv.S)
				}
			}
			havocked = append(havocked, hv{k, nv})
		}
		for _, h := range havocked {
			vc.localTypeFacts(s, h.k, h.t)
		}
	}
	// cells of captured locals written in the loop: havoc exactly those cells
	if !vc.dry {
		for _, k := range sortedKeysCW(li.cellWrites) {
			if li.writes[k] {
				continue // the whole heap was havocked already
			}
			srt, _ := vc.sortOfKey(k)
			cur := vc.get(s, k, srt)
			_, vs := splitArraySort(srt)
			seen := map[ssa.Value]bool{}
			for _, pv := range li.cellWrites[k] {
				if seen[pv] {
					continue
				}
				seen[pv] = true
				ref, ok := vc.regs[pv]
				if !ok {
					continue // allocated inside the loop: fresh each iteration
				}
				nv := vc.freshConst(fmt.Sprintf("h%d_cell", li.ord), vs)
				if vs == "Slice" {
					// whatever the loop stored there is a well-formed slice whose array has been allocated
					al := vc.get(s, "alloc", "(Array Int Bool)")
					vc.assume(s.pc, T("Bool", fmt.Sprintf("(and (>= (s!len %s) 0) (>= (s!off %s) 0) (>= (s!cap %s) (s!len %s)) (=> (= (s!arr %s) 0) (= (s!cap %s) 0)))", nv.S, nv.S, nv.S, nv.S, nv.S, nv.S)))
					if vc.useQuantSlices {
						vc.assume(s.pc, T("Bool", fmt.Sprintf("(or (= (s!arr %s) 0) (select %s (s!arr %s)))", nv.S, al.S, nv.S)))
					}
				}
				cur = app(srt, "store", cur, ref, nv)
			}
			s.vars[k] = vc.nameTerm(cur, k)
		}
	}
	// range-over-slice loops: the hidden index stays >= -1 (needed for the bounds of the element access)
	if ri := vc.rangeIndexAlloc(li); ri != nil && !vc.dry {
		if ad, ok := vc.addrs[ri]; ok {
			v := vc.loadAddr(s, ad)
			vc.assume(s.pc, app("Bool", ">=", v, intLit(-1)))
			li.autoTerm = true
		}
	}
	if li.header.Comment == "rangeiter.loop" {
		li.autoTerm = true
	}
	// the loop head gets its own path condition name
	pc := vc.freshConst(fmt.Sprintf("pc_%s", name), "Bool")
	vc.emit("(assert (= %s %s))", pc.S, s.pc.S)
	s.pc = pc
	e = vc.newEnv(s, vc.entry, li.pos)
	vc.bindRangeIndex(e, li, s)
	for _, k := range frameKeys {
		if cur, ok := s.vars[k]; ok {
			init := vc.get(vc.init, k, cur.Sort)
			vc.assume(s.pc, vc.frameFormula(cur, init))
		}
	}
	if li.spec != nil {
		for _, cl := range li.spec.Inv {
			if !cl.active(vc.prop) {
				continue
			}
			vc.assume(s.pc, vc.tr(e, cl.E))
		}
		if li.spec.Dec != nil && li.spec.Dec.active(vc.prop) {
			d := vc.tr(e, li.spec.Dec.E)
			snap := vc.freshConst(fmt.Sprintf("dec%d", li.ord), "Int")
			vc.emit("(assert (= %s %s))", snap.S, d.S)
			li.decSnap = &snap
		}
	}
	// default termination measure for iterator loops (for iter := p.Begin(); iter != p.End(); iter = iter.Next())
	if vc.prop == "C11" && !vc.dry && li.decSnap == nil && !li.autoTerm {
		if it := vc.iteratorAlloc(li); it != nil {
			if ad, ok := vc.addrs[it]; ok {
				v := vc.loadAddr(s, ad)
				vc.eng.needFun(vc, "ipos", []string{"Iface"}, "Int")
				vc.eng.needFun(vc, "ilen", []string{"Iface"}, "Int")
				snap := vc.freshConst(fmt.Sprintf("dec%d", li.ord), "Int")
				vc.emit("(assert (= %s (ite (= %s (mkI 0 0)) 0 (- (ilen %s) (ipos %s)))))", snap.S, v.S, v.S, v.S)
				li.decSnap = &snap
				li.autoIter = it
			}
		}
	}
}

// bindRangeIndex makes "$ri" stand for the hidden index of a range-over-slice loop in its own
// invariants: at the loop head it is the index of the last element already visited (-1 at entry).
func (vc *FuncVC) bindRangeIndex(e *env, li *loopInfo, s *State) {
	if ri := vc.rangeIndexAlloc(li); ri != nil {
		if ad, ok := vc.addrs[ri]; ok {
			e.vars["$ri"] = vc.loadAddr(s, ad)
		}
	}
}

func (vc *FuncVC) rangeIndexAlloc(li *loopInfo) *ssa.Alloc {
	if li.header.Comment != "rangeindex.loop" {
		return nil
	}
	for _, in := range li.header.Instrs {
		if st, ok := in.(*ssa.Store); ok {
			if a, ok := st.Addr.(*ssa.Alloc); ok && a.Comment == "rangeindex" {
				return a
			}
		}
	}
	return nil
}

// iteratorAlloc finds the loop variable of an iterator loop: a local of interface type with a
// Next method that is assigned in the loop (outside its inner loops).
func (vc *FuncVC) iteratorAlloc(li *loopInfo) *ssa.Alloc {
	inner := map[*ssa.BasicBlock]bool{}
	for _, other := range vc.cur.loops {
		if other != li && li.blocks[other.header] {
			for b := range other.blocks {
				inner[b] = true
			}
		}
	}
	var found *ssa.Alloc
	for b := range li.blocks {
		if inner[b] {
			continue
		}
		for _, in := range b.Instrs {
			st, ok := in.(*ssa.Store)
			if !ok {
				continue
			}
			a, ok := st.Addr.(*ssa.Alloc)
			if !ok || a.Heap {
				continue
			}
			et := a.Type().Underlying().(*types.Pointer).Elem()
			if _, isI := et.Underlying().(*types.Interface); !isI {
				continue
			}
			ms := types.NewMethodSet(et)
			if ms.Lookup(nil, "Next") == nil {
				continue
			}
			// the stored value must come from a Next() call
			if c, ok := st.Val.(*ssa.Call); ok && c.Call.IsInvoke() && c.Call.Method.Name() == "Next" {
				if found != nil && found != a {
					return nil
				}
				found = a
			}
		}
	}
	return found
}

func clauseName(cl Clause, i int) string {
	if cl.Label != "" {
		return cl.Label
	}
	return fmt.Sprintf("c%d", i+1)
}

func (vc *FuncVC) isHeapKey(k string) bool {
	return strings.HasPrefix(k, "H:") || strings.HasPrefix(k, "C:") || strings.HasPrefix(k, "A:") || strings.HasPrefix(k, "MD:") || strings.HasPrefix(k, "MV:")
}

func (vc *FuncVC) declaredMod(k string) bool {
	if vc.c == nil {
		return false
	}
	for _, m := range vc.c.Mods {
		base := m
		if i := strings.Index(m, "["); i >= 0 {
			base = m[:i]
		}
		if kk, _, ok := vc.stateKey(base); ok && kk == k {
			return true
		}
	}
	return false
}

func (vc *FuncVC) frameFormula(cur, init Term) Term {
	al := vc.get(vc.init, "alloc", "(Array Int Bool)")
	return T("Bool", fmt.Sprintf("(forall ((r!q Int)) (! (=> (select %s r!q) (= (select %s r!q) (select %s r!q))) :pattern ((select %s r!q))))", al.S, cur.S, init.S, cur.S))
}

func (vc *FuncVC) loopBack(li *loopInfo, s *State, from *ssa.BasicBlock) {
	name := fmt.Sprintf("loop%d", li.ord)
	e := vc.newEnv(s, vc.entry, li.pos)
	vc.bindRangeIndex(e, li, s)
	for _, k := range li.frameKeys {
		if cur, ok := s.vars[k]; ok {
			init := vc.get(vc.init, k, cur.Sort)
			vc.oblige("inv.keep", fmt.Sprintf("%s/inv.keep:frame:%s", name, k), "unchanged(allocated at entry) "+k, li.pos, s.pc, vc.frameFormula(cur, init))
		}
	}
	if li.spec != nil {
		for i, cl := range li.spec.Inv {
			if !cl.active(vc.prop) {
				continue
			}
			f := vc.tr(e, cl.E)
			vc.oblige("inv.keep", fmt.Sprintf("%s/inv.keep:%s", name, clauseName(cl, i)), cl.Src, li.pos, s.pc, f)
		}
		if li.spec.Dec != nil && li.spec.Dec.active(vc.prop) && li.decSnap != nil {
			d := vc.tr(e, li.spec.Dec.E)
			f := and(app("Bool", "<", d, *li.decSnap), app("Bool", ">=", *li.decSnap, intLit(0)))
			vc.oblige("dec", fmt.Sprintf("%s/dec", name), li.spec.Dec.Src, li.pos, s.pc, f)
		}
	}
	if ri := vc.rangeIndexAlloc(li); ri != nil {
		if ad, ok := vc.addrs[ri]; ok {
			v := vc.loadAddr(s, ad)
			vc.oblige("inv.keep", fmt.Sprintf("%s/inv.keep:rangeindex", name), "rangeindex >= -1", li.pos, s.pc, app("Bool", ">=", v, intLit(-1)))
		}
	}
	if vc.prop == "C11" && li.autoIter != nil && li.decSnap != nil {
		if ad, ok := vc.addrs[li.autoIter]; ok {
			v := vc.loadAddr(s, ad)
			d := T("Int", fmt.Sprintf("(ite (= %s (mkI 0 0)) 0 (- (ilen %s) (ipos %s)))", v.S, v.S, v.S))
			f := and(app("Bool", "<", d, *li.decSnap), app("Bool", ">=", *li.decSnap, intLit(0)))
			vc.oblige("dec", fmt.Sprintf("%s/dec", name), "iterator measure: iter == nil ? 0 : ilen(iter) - ipos(iter)", li.pos, s.pc, f)
		}
	} else if vc.prop == "C11" && !li.autoTerm && (li.spec == nil || li.spec.Dec == nil || !li.spec.Dec.active(vc.prop)) {
		vc.oblige("dec", fmt.Sprintf("%s/dec", name), "(no decreases clause given)", li.pos, s.pc, tFalse)
	}
}

// ---------------------------------------------------------------------------
// blocks and instructions

func (vc *FuncVC) inLoops(b *ssa.BasicBlock) []*loopInfo {
	var out []*loopInfo
	for _, li := range vc.cur.loops {
		if li.blocks[b] {
			out = append(out, li)
		}
	}
	return out
}

func (vc *FuncVC) noteWrite(key string) {
	if vc.dry && vc.curBlock != nil {
		for _, li := range vc.inLoops(vc.curBlock) {
			li.writes[key] = true
		}
		vc.noteOuter(key)
	}
}

// noteOuter: while a callee is being inlined, its writes also belong to the loops of the
// callers that contain the call site.
func (vc *FuncVC) noteOuter(key string) {
	for _, o := range vc.inlineOuter {
		for _, li := range o.fr.loops {
			if li.blocks[o.b] {
				li.writes[key] = true
			}
		}
	}
}

// execBlock returns one out-state per successor (nil when the block ends the path).
func (vc *FuncVC) execBlock(b *ssa.BasicBlock, s *State) []*State {
	for _, in := range b.Instrs {
		switch x := in.(type) {
		case *ssa.If:
			c := vc.val(s, x.Cond)
			s1 := s.clone()
			s1.pc = vc.namePC(and(s.pc, c), fmt.Sprintf("B%d_t", b.Index))
			s2 := s.clone()
			s2.pc = vc.namePC(and(s.pc, not(c)), fmt.Sprintf("B%d_f", b.Index))
			return []*State{s1, s2}
		case *ssa.Jump:
			return []*State{s}
		case *ssa.Return:
			vc.doReturn(s, x, b)
			return nil
		case *ssa.Panic:
			vc.safety(s, "safe.panic", "panic", x.Pos(), tFalse)
			return nil
		default:
			vc.execInstr(s, in)
			if len(vc.outside) > 0 && vc.abort {
				return nil
			}
		}
	}
	return nil
}

func (vc *FuncVC) namePC(t Term, hint string) Term {
	if len(t.S) < 40 {
		return t
	}
	pc := vc.freshConst("pc_"+hint, "Bool")
	vc.emit("(assert (= %s %s))", pc.S, t.S)
	return pc
}

func (vc *FuncVC) typeFacts(pc Term, t Term, gt types.Type) {
	switch gt.Underlying().(type) {
	case *types.Slice:
		vc.assume(pc, T("Bool", fmt.Sprintf("(and (>= (s!len %s) 0) (>= (s!off %s) 0) (>= (s!cap %s) (s!len %s)) (=> (= (s!arr %s) 0) (= (s!cap %s) 0)))", t.S, t.S, t.S, t.S, t.S, t.S)))
	case *types.Basic:
		b := gt.Underlying().(*types.Basic)
		if b.Info()&types.IsUnsigned != 0 {
			vc.assume(pc, T("Bool", fmt.Sprintf("(>= %s 0)", t.S)))
		}
	}
}

func (vc *FuncVC) localTypeFacts(s *State, key string, t Term) {
	// a reference held in a local variable refers to something that has been allocated
	if strings.HasPrefix(key, "L:") && vc.useQuantSlices {
		al := vc.get(s, "alloc", "(Array Int Bool)")
		if t.Sort == "Slice" {
			vc.assume(s.pc, T("Bool", fmt.Sprintf("(or (= (s!arr %s) 0) (select %s (s!arr %s)))", t.S, al.S, t.S)))
		} else if t.Sort == "Int" && t.GoT != nil {
			switch t.GoT.Underlying().(type) {
			case *types.Pointer, *types.Map:
				vc.assume(s.pc, T("Bool", fmt.Sprintf("(or (= %s 0) (select %s %s))", t.S, al.S, t.S)))
			}
		}
	}
	if t.GoT != nil {
		vc.typeFacts(s.pc, t, t.GoT)
	} else if t.Sort == "Slice" {
		vc.assume(s.pc, T("Bool", fmt.Sprintf("(and (>= (s!len %s) 0) (>= (s!off %s) 0) (>= (s!cap %s) (s!len %s)) (=> (= (s!arr %s) 0) (= (s!cap %s) 0)))", t.S, t.S, t.S, t.S, t.S, t.S)))
	}
}

func (vc *FuncVC) setReg(v ssa.Value, t Term) {
	t.GoT = v.Type()
	vc.regs[v] = vc.nameTerm(t, v.Name())
}

func (vc *FuncVC) loadPtr(s *State, p ssa.Value, pos token.Pos) Term {
	if a, ok := vc.addrs[p]; ok {
		return vc.loadAddr(s, a)
	}
	if g, ok := p.(*ssa.Global); ok {
		et := g.Type().Underlying().(*types.Pointer).Elem()
		key := "GL:" + strings.ReplaceAll(g.Pkg.Pkg.Path(), modPrefix, "") + "." + g.Name()
		t := vc.get(s, key, vc.ss.sortOf(et))
		t.GoT = et
		return t
	}
	ref := vc.val(s, p)
	et := p.Type().Underlying().(*types.Pointer).Elem()
	vc.safety(s, "safe.nil", "load:"+vc.describe(p), pos, not(eq(ref, T("Int", "0"))))
	switch {
	case isStruct(et):
		return vc.loadStructFromHeap(s, ref, et)
	case isArray(et):
		sort := vc.ss.sortOf(et.Underlying().(*types.Array).Elem())
		h := vc.get(s, "A:"+sort, "(Array Int (Array Int "+sort+"))")
		return app("(Array Int "+sort+")", "select", h, ref)
	default:
		sort := vc.ss.sortOf(et)
		h := vc.get(s, "C:"+sort, "(Array Int "+sort+")")
		return app(sort, "select", h, ref)
	}
}

func (vc *FuncVC) storePtr(s *State, p ssa.Value, v Term, pos token.Pos) {
	if a, ok := vc.addrs[p]; ok {
		vc.storeAddr(s, a, v)
		vc.noteAddrWrite(a)
		return
	}
	if g, ok := p.(*ssa.Global); ok {
		key := "GL:" + strings.ReplaceAll(g.Pkg.Pkg.Path(), modPrefix, "") + "." + g.Name()
		vc.set(s, key, v)
		vc.noteWrite(key)
		return
	}
	ref := vc.val(s, p)
	et := p.Type().Underlying().(*types.Pointer).Elem()
	vc.safety(s, "safe.nil", "store:"+vc.describe(p), pos, not(eq(ref, T("Int", "0"))))
	switch {
	case isStruct(et):
		vc.storeStructToHeap(s, ref, et, v)
		info := vc.ss.structInfoOf(et)
		for i := range info.fields {
			k, _ := vc.heapFieldKey(et, i)
			vc.noteWrite(k)
		}
	case isArray(et):
		sort := vc.ss.sortOf(et.Underlying().(*types.Array).Elem())
		hs := "(Array Int (Array Int " + sort + "))"
		h := vc.get(s, "A:"+sort, hs)
		vc.set(s, "A:"+sort, app(hs, "store", h, ref, v))
		vc.noteWrite("A:" + sort)
	default:
		sort := vc.ss.sortOf(et)
		hs := "(Array Int " + sort + ")"
		h := vc.get(s, "C:"+sort, hs)
		vc.set(s, "C:"+sort, app(hs, "store", h, ref, v))
		vc.noteCellWrite("C:"+sort, p)
	}
}

// noteCellWrite records a write to a cell heap; writes through the address of a captured local
// (a heap Alloc of this function or a free variable) are remembered precisely so that a loop
// havocs only those cells.
func (vc *FuncVC) noteCellWrite(key string, p ssa.Value) {
	if !vc.dry || vc.curBlock == nil {
		return
	}
	precise := false
	switch x := p.(type) {
	case *ssa.Alloc:
		precise = x.Heap
	case *ssa.FreeVar:
		precise = true
	}
	vc.noteOuter(key)
	for _, li := range vc.inLoops(vc.curBlock) {
		if precise {
			if li.cellWrites == nil {
				li.cellWrites = map[string][]ssa.Value{}
			}
			li.cellWrites[key] = append(li.cellWrites[key], p)
		} else {
			li.writes[key] = true
		}
	}
}

func (vc *FuncVC) noteAddrWrite(a *Addr) {
	switch a.kind {
	case "local", "global":
		vc.noteWrite(a.key)
	case "heapField":
		k, _ := vc.heapFieldKey(a.typ, a.path[0].field)
		vc.noteWrite(k)
	case "cell":
		vc.noteWrite("C:" + vc.ss.sortOf(a.typ))
	case "arr":
		vc.noteWrite("A:" + vc.ss.sortOf(a.typ))
	}
}

func (vc *FuncVC) describe(v ssa.Value) string {
	switch x := v.(type) {
	case *ssa.UnOp:
		return vc.describe(x.X)
	case *ssa.Alloc:
		if x.Comment != "" {
			return x.Comment
		}
	case *ssa.FieldAddr:
		st := x.X.Type().Underlying().(*types.Pointer).Elem().Underlying().(*types.Struct)
		return vc.describe(x.X) + "." + st.Field(x.Field).Name()
	case *ssa.Field:
		st := x.X.Type().Underlying().(*types.Struct)
		return vc.describe(x.X) + "." + st.Field(x.Field).Name()
	case *ssa.Parameter:
		return x.Name()
	case *ssa.FreeVar:
		return x.Name()
	case *ssa.Call:
		return vc.calleeShort(&x.Call) + "()"
	case *ssa.Extract:
		return vc.describe(x.Tuple)
	case *ssa.TypeAssert:
		return vc.describe(x.X)
	case *ssa.ChangeInterface:
		return vc.describe(x.X)
	case *ssa.MakeInterface:
		return vc.describe(x.X)
	case *ssa.IndexAddr:
		return vc.describe(x.X) + "[]"
	case *ssa.Lookup:
		return vc.describe(x.X) + "[]"
	case *ssa.Const:
		return "const"
	}
	return v.Name()
}

func (vc *FuncVC) calleeShort(c *ssa.CallCommon) string {
	if c.IsInvoke() {
		return c.Method.Name()
	}
	if f, ok := c.Value.(*ssa.Function); ok {
		return f.Name()
	}
	return vc.dynName(c.Value)
}

func (vc *FuncVC) execInstr(s *State, in ssa.Instruction) {
	if in.Pos().IsValid() {
		vc.curPos = in.Pos()
	}
	switch x := in.(type) {
	case *ssa.DebugRef:
	case *ssa.Alloc:
		et := x.Type().Underlying().(*types.Pointer).Elem()
		if isArray(et) {
			r := vc.freshRef(s, "arr_"+x.Comment)
			vc.noteWrite("alloc")
			sort := vc.ss.sortOf(et.Underlying().(*types.Array).Elem())
			hs := "(Array Int (Array Int " + sort + "))"
			h := vc.get(s, "A:"+sort, hs)
			vc.set(s, "A:"+sort, app(hs, "store", h, r, vc.ss.zero("(Array Int "+sort+")")))
			vc.noteWrite("A:" + sort)
			vc.setReg(x, r)
			return
		}
		if !x.Heap {
			key := fmt.Sprintf("L:%s%s#%d", vc.cur.prefix, x.Comment, vc.allocID(x))
			z := vc.ss.zero(vc.ss.sortOf(et))
			z.GoT = et
			vc.set(s, key, z)
			vc.noteWrite(key)
			vc.addrs[x] = &Addr{kind: "local", key: key, typ: et, elem: et}
			return
		}
		r := vc.freshRef(s, "new_"+x.Comment)
		vc.noteWrite("alloc")
		vc.setReg(x, r)
		z := vc.ss.zero(vc.ss.sortOf(et))
		for _, fi := range vc.eng.specs.FreshInits {
			if fi.Type == normType(et) {
				e := vc.newEnv(s, s, x.Pos())
				e.noLocals = true
				rt := r
				rt.GoT = x.Type()
				e.vars["x"] = rt
				vc.assume(s.pc, vc.tr(e, fi.E))
			}
		}
		if isStruct(et) {
			vc.storeStructToHeap(s, r, et, z)
			info := vc.ss.structInfoOf(et)
			for i := range info.fields {
				k, _ := vc.heapFieldKey(et, i)
				vc.noteWrite(k)
			}
		} else {
			sort := vc.ss.sortOf(et)
			hs := "(Array Int " + sort + ")"
			h := vc.get(s, "C:"+sort, hs)
			vc.set(s, "C:"+sort, app(hs, "store", h, r, z))
			vc.noteCellWrite("C:"+sort, x)
		}
	case *ssa.Store:
		v := vc.val(s, x.Val)
		vc.storePtr(s, x.Addr, v, x.Pos())
	case *ssa.UnOp:
		switch x.Op {
		case token.MUL:
			t := vc.loadPtr(s, x.X, x.Pos())
			vc.setReg(x, t)
		case token.NOT:
			vc.setReg(x, not(vc.val(s, x.X)))
		case token.SUB:
			v := vc.val(s, x.X)
			vc.setReg(x, app(v.Sort, "-", v))
		case token.XOR:
			v := vc.val(s, x.X)
			vc.eng.needFun(vc, "bitnot", []string{"Int"}, "Int")
			vc.setReg(x, app("Int", "bitnot", v))
		case token.ARROW:
			vc.outsideSubset("channel receive")
			vc.setReg(x, vc.freshConst("recv", vc.ss.sortOf(x.Type())))
		default:
			vc.outsideSubset("unop %v", x.Op)
		}
	case *ssa.BinOp:
		vc.setReg(x, vc.binop(s, x))
	case *ssa.FieldAddr:
		pt := x.X.Type().Underlying().(*types.Pointer).Elem()
		ft := pt.Underlying().(*types.Struct).Field(x.Field).Type()
		if a, ok := vc.addrs[x.X]; ok {
			na := *a
			na.path = append(append([]pathElem{}, a.path...), pathElem{field: x.Field})
			na.elem = ft
			vc.addrs[x] = &na
			return
		}
		ref := vc.val(s, x.X)
		vc.safety(s, "safe.nil", "field:"+vc.describe(x.X)+"."+pt.Underlying().(*types.Struct).Field(x.Field).Name(), x.Pos(), not(eq(ref, T("Int", "0"))))
		if isStruct(ft) {
			vc.setReg(x, vc.subRef(ref, pt, x.Field))
			return
		}
		vc.addrs[x] = &Addr{kind: "heapField", base: ref, typ: pt, path: []pathElem{{field: x.Field}}, elem: ft}
	case *ssa.Field:
		v := vc.val(s, x.X)
		info := vc.ss.structInfoOf(x.X.Type())
		vc.setReg(x, app(info.sorts[x.Field], info.fields[x.Field], v))
	case *ssa.IndexAddr:
		idx := vc.val(s, x.Index)
		switch ut := x.X.Type().Underlying().(type) {
		case *types.Slice:
			sl := vc.val(s, x.X)
			vc.safety(s, "safe.idx", "index:"+vc.describe(x.X), x.Pos(), T("Bool", fmt.Sprintf("(and (<= 0 %s) (< %s (s!len %s)))", idx.S, idx.S, sl.S)))
			vc.addrs[x] = &Addr{kind: "arr", base: app("Int", "s!arr", sl), idx: ixTerm(sliceOff(sl), idx), typ: ut.Elem(), elem: ut.Elem()}
		case *types.Pointer:
			at := ut.Elem().Underlying().(*types.Array)
			ref := vc.val(s, x.X)
			vc.safety(s, "safe.idx", "index:"+vc.describe(x.X), x.Pos(), T("Bool", fmt.Sprintf("(and (<= 0 %s) (< %s %d))", idx.S, idx.S, at.Len())))
			vc.addrs[x] = &Addr{kind: "arr", base: ref, idx: idx, typ: at.Elem(), elem: at.Elem()}
		default:
			vc.outsideSubset("IndexAddr on %s", x.X.Type())
		}
	case *ssa.Index:
		v := vc.val(s, x.X)
		idx := vc.val(s, x.Index)
		switch ut := x.X.Type().Underlying().(type) {
		case *types.Array:
			vc.safety(s, "safe.idx", "index:"+vc.describe(x.X), x.Pos(), T("Bool", fmt.Sprintf("(and (<= 0 %s) (< %s %d))", idx.S, idx.S, ut.Len())))
			vc.setReg(x, app(vc.ss.sortOf(ut.Elem()), "select", v, idx))
		default:
			// string index
			vc.safety(s, "safe.idx", "index:"+vc.describe(x.X), x.Pos(), T("Bool", fmt.Sprintf("(and (<= 0 %s) (< %s (str.len %s)))", idx.S, idx.S, v.S)))
			vc.setReg(x, T("Int", fmt.Sprintf("(str.to_code (str.at %s %s))", v.S, idx.S)))
		}
	case *ssa.Lookup:
		vc.lookup(s, x)
	case *ssa.MapUpdate:
		m := vc.val(s, x.Map)
		k := vc.val(s, x.Key)
		v := vc.val(s, x.Value)
		vc.safety(s, "safe.mapw", "mapwrite:"+vc.describe(x.Map), x.Pos(), not(eq(m, T("Int", "0"))))
		if f, src := vc.elemInv(s, x.Map.Type().Underlying().(*types.Map).Elem(), v); f.S != "true" {
			n := vc.siteCounter("safe.elem")
			vc.oblige("safe.elem", fmt.Sprintf("safe.elem@mapstore#%d", n), "element invariant: "+src, x.Pos(), s.pc, f)
		}
		dk, vk, ds, vs := vc.mapKeys(x.Map.Type())
		d := vc.get(s, dk, ds)
		vv := vc.get(s, vk, vs)
		_, dinner := splitArraySort(ds)
		_, vinner := splitArraySort(vs)
		vc.set(s, dk, app(ds, "store", d, m, app(dinner, "store", app(dinner, "select", d, m), k, tTrue)))
		vc.set(s, vk, app(vs, "store", vv, m, app(vinner, "store", app(vinner, "select", vv, m), k, v)))
		vc.noteWrite(dk)
		vc.noteWrite(vk)
	case *ssa.MakeMap:
		r := vc.freshRef(s, "map")
		vc.noteWrite("alloc")
		dk, vk, ds, vs := vc.mapKeys(x.Type())
		d := vc.get(s, dk, ds)
		vv := vc.get(s, vk, vs)
		_, dinner := splitArraySort(ds)
		_, vinner := splitArraySort(vs)
		vc.set(s, dk, app(ds, "store", d, r, vc.ss.zero(dinner)))
		vc.set(s, vk, app(vs, "store", vv, r, vc.ss.zero(vinner)))
		vc.noteWrite(dk)
		vc.noteWrite(vk)
		vc.setReg(x, r)
	case *ssa.MakeSlice:
		ln := vc.val(s, x.Len)
		cp := vc.val(s, x.Cap)
		r := vc.freshRef(s, "mkslice")
		vc.noteWrite("alloc")
		sort := vc.ss.sortOf(x.Type().Underlying().(*types.Slice).Elem())
		hs := "(Array Int (Array Int " + sort + "))"
		h := vc.get(s, "A:"+sort, hs)
		vc.set(s, "A:"+sort, app(hs, "store", h, r, vc.ss.zero("(Array Int "+sort+")")))
		vc.noteWrite("A:" + sort)
		vc.safety(s, "safe.slice", "makeslice", x.Pos(), T("Bool", fmt.Sprintf("(and (<= 0 %s) (<= %s %s))", ln.S, ln.S, cp.S)))
		if f, src := vc.elemInv(s, x.Type().Underlying().(*types.Slice).Elem(), vc.ss.zero(sort)); f.S != "true" {
			n := vc.siteCounter("safe.elem")
			vc.oblige("safe.elem", fmt.Sprintf("safe.elem@make#%d", n), "make(): zero elements must satisfy the element invariant or the length be 0: "+src, x.Pos(), s.pc, or(eq(ln, intLit(0)), f))
		}
		vc.setReg(x, T("Slice", fmt.Sprintf("(mkS %s 0 %s %s)", r.S, ln.S, cp.S)))
	case *ssa.Slice:
		vc.sliceOp(s, x)
	case *ssa.MakeClosure:
		var bs []Term
		for _, b := range x.Bindings {
			bs = append(bs, vc.val(s, b))
		}
		vc.setReg(x, vc.funcRef(x.Fn.(*ssa.Function), bs, x.Bindings))
	case *ssa.MakeInterface:
		v := vc.val(s, x.X)
		tag := vc.ss.typeTag(x.X.Type())
		vc.setReg(x, T("Iface", fmt.Sprintf("(mkI %d %s)", tag, vc.boxPayload(v).S)))
	case *ssa.ChangeInterface:
		vc.setReg(x, vc.val(s, x.X))
	case *ssa.ChangeType:
		vc.setReg(x, vc.val(s, x.X))
	case *ssa.Convert:
		vc.convert(s, x)
	case *ssa.TypeAssert:
		vc.typeAssert(s, x)
	case *ssa.Extract:
		tp := vc.tuples[x.Tuple]
		if x.Index < len(tp) {
			vc.setReg(x, tp[x.Index])
		} else {
			vc.setReg(x, vc.freshConst("extract", vc.ss.sortOf(x.Type())))
		}
	case *ssa.Phi:
		// value depends on which predecessor we came from; the merge gave only pc, so
		// rebuild from edge conditions recorded in phiConds
		vc.phi(s, x)
	case *ssa.Call:
		res := vc.execCall(s, &x.Call, x, x.Pos())
		if x.Call.Signature().Results().Len() == 1 {
			if len(res) == 1 {
				vc.setReg(x, res[0])
			}
		} else {
			vc.tuples[x] = res
		}
	case *ssa.Defer:
		vc.deferInstr(s, x)
	case *ssa.RunDefers:
		vc.runDefers(s, x)
	case *ssa.Range:
		if _, ok := x.X.Type().Underlying().(*types.Map); !ok {
			vc.outsideSubset("range over %s", x.X.Type())
			return
		}
		key := fmt.Sprintf("IT:%s%d", vc.cur.prefix, vc.rangeID(x))
		kt := x.X.Type().Underlying().(*types.Map).Key()
		vc.set(s, key, vc.ss.zero("(Array "+vc.ss.sortOf(kt)+" Bool)"))
		vc.noteWrite(key)
	case *ssa.Next:
		vc.next(s, x)
	case *ssa.Go, *ssa.Send, *ssa.Select, *ssa.MakeChan:
		vc.outsideSubset("%T (concurrency) at %s", in, vc.posStr(in.Pos()))
		vc.abort = true
	default:
		vc.outsideSubset("unsupported instruction %T at %s", in, vc.posStr(in.Pos()))
	}
}

func (vc *FuncVC) allocID(a *ssa.Alloc) int {
	for i, l := range vc.cur.fn.Locals {
		if l == a {
			return i
		}
	}
	return -1
}

func (vc *FuncVC) rangeID(r *ssa.Range) int {
	n := 0
	for _, b := range vc.cur.fn.Blocks {
		for _, in := range b.Instrs {
			if rr, ok := in.(*ssa.Range); ok {
				n++
				if rr == r {
					return n
				}
			}
		}
	}
	return 0
}

func (vc *FuncVC) mapKeys(t types.Type) (string, string, string, string) {
	mt := t.Underlying().(*types.Map)
	ks := vc.ss.sortOf(mt.Key())
	vs := vc.ss.sortOf(mt.Elem())
	return "MD:" + ks + ":" + vs, "MV:" + ks + ":" + vs, "(Array Int (Array " + ks + " Bool))", "(Array Int (Array " + ks + " " + vs + "))"
}

func (vc *FuncVC) lookup(s *State, x *ssa.Lookup) {
	if mt, ok := x.X.Type().Underlying().(*types.Map); ok {
		m := vc.val(s, x.X)
		k := vc.val(s, x.Index)
		dk, vk, ds, vs := vc.mapKeys(x.X.Type())
		d := vc.get(s, dk, ds)
		vv := vc.get(s, vk, vs)
		_, dinner := splitArraySort(ds)
		_, vinner := splitArraySort(vs)
		es := vc.ss.sortOf(mt.Elem())
		dom := app("Bool", "select", app(dinner, "select", d, m), k)
		stored := app(es, "select", app(vinner, "select", vv, m), k)
		if f, src := vc.elemInv(s, mt.Elem(), stored); f.S != "true" {
			vc.assume(s.pc, imp(dom, f))
			vc.assumedUsed["global element invariant on map values "+normType(mt.Elem())+": "+src] = true
		}
		val := ite(dom, stored, vc.ss.zero(es))
		val.GoT = mt.Elem()
		if x.CommaOk {
			vc.tuples[x] = []Term{val, dom}
		} else {
			vc.setReg(x, val)
		}
		return
	}
	// string index
	v := vc.val(s, x.X)
	idx := vc.val(s, x.Index)
	vc.safety(s, "safe.idx", "index:"+vc.describe(x.X), x.Pos(), T("Bool", fmt.Sprintf("(and (<= 0 %s) (< %s (str.len %s)))", idx.S, idx.S, v.S)))
	vc.setReg(x, T("Int", fmt.Sprintf("(str.to_code (str.at %s %s))", v.S, idx.S)))
}

func (vc *FuncVC) next(s *State, x *ssa.Next) {
	if x.IsString {
		vc.outsideSubset("range over string")
		return
	}
	rg := x.Iter.(*ssa.Range)
	mt := rg.X.Type().Underlying().(*types.Map)
	key := fmt.Sprintf("IT:%s%d", vc.cur.prefix, vc.rangeID(rg))
	ks := vc.ss.sortOf(mt.Key())
	es := vc.ss.sortOf(mt.Elem())
	visited := vc.get(s, key, "(Array "+ks+" Bool)")
	m := vc.val(s, rg.X)
	dk, vk, ds, vs := vc.mapKeys(rg.X.Type())
	d := vc.get(s, dk, ds)
	vv := vc.get(s, vk, vs)
	_, dinner := splitArraySort(ds)
	_, vinner := splitArraySort(vs)
	dom := app(dinner, "select", d, m)
	ok := vc.freshConst("next_ok", "Bool")
	k := vc.freshConst("next_k", ks)
	vc.assume(s.pc, imp(ok, and(app("Bool", "select", dom, k), not(app("Bool", "select", visited, k)))))
	// when iteration ends every key has been visited
	vc.emit("(assert (=> (and %s (not %s)) (forall ((k!q %s)) (! (=> (select %s k!q) (select %s k!q)) :pattern ((select %s k!q))))))", s.pc.S, ok.S, ks, dom.S, visited.S, visited.S)
	vc.set(s, key, ite(ok, app("(Array "+ks+" Bool)", "store", visited, k, tTrue), visited))
	vc.noteWrite(key)
	val := app(es, "select", app(vinner, "select", vv, m), k)
	val.GoT = mt.Elem()
	k.GoT = mt.Key()
	vc.tuples[x] = []Term{ok, k, val}
}

func (vc *FuncVC) phi(s *State, x *ssa.Phi) {
	// Reconstruct from the predecessor out-states: we record, per block, the pc of each incoming edge.
	b := x.Block()
	var t Term
	first := true
	for i := len(b.Preds) - 1; i >= 0; i-- {
		p := b.Preds[i]
		ec, ok := vc.edgePC[edgeF{b.Parent(), p.Index, b.Index}]
		if !ok {
			continue
		}
		v := vc.val(s, x.Edges[i])
		if first {
			t = v
			first = false
		} else {
			t = ite(ec, v, t)
		}
	}
	if first {
		t = vc.freshConst("phi", vc.ss.sortOf(x.Type()))
	}
	vc.setReg(x, t)
}

func (vc *FuncVC) binop(s *State, x *ssa.BinOp) Term {
	a := vc.val(s, x.X)
	b := vc.val(s, x.Y)
	sort := vc.ss.sortOf(x.X.Type())
	switch x.Op {
	case token.EQL, token.NEQ:
		var r Term
		if sort == "Slice" {
			// only comparison with nil is legal
			other := a
			if _, isC := x.X.(*ssa.Const); isC {
				other = b
			}
			r = eq(app("Int", "s!arr", other), T("Int", "0"))
		} else {
			r = eq(a, b)
		}
		if x.Op == token.NEQ {
			r = not(r)
		}
		return r
	case token.LSS, token.LEQ, token.GTR, token.GEQ:
		op := map[token.Token]string{token.LSS: "<", token.LEQ: "<=", token.GTR: ">", token.GEQ: ">="}[x.Op]
		if sort == "String" {
			switch x.Op {
			case token.LSS:
				return app("Bool", "str.<", a, b)
			case token.LEQ:
				return app("Bool", "str.<=", a, b)
			case token.GTR:
				return app("Bool", "str.<", b, a)
			default:
				return app("Bool", "str.<=", b, a)
			}
		}
		return app("Bool", op, a, b)
	case token.ADD:
		if sort == "String" {
			return app("String", "str.++", a, b)
		}
		return app(sort, "+", a, b)
	case token.SUB:
		return app(sort, "-", a, b)
	case token.MUL:
		return app(sort, "*", a, b)
	case token.QUO:
		if sort == "Real" {
			return app(sort, "/", a, b)
		}
		vc.safety(s, "safe.div", "div", x.Pos(), not(eq(b, T("Int", "0"))))
		return app("Int", "godiv", a, b)
	case token.REM:
		vc.safety(s, "safe.div", "rem", x.Pos(), not(eq(b, T("Int", "0"))))
		return app("Int", "gomod", a, b)
	case token.LAND:
		return and(a, b)
	case token.LOR:
		return or(a, b)
	default:
		name := "bitop_" + smtIdent(x.Op.String())
		fn := map[token.Token]string{token.AND: "bitand", token.OR: "bitor", token.XOR: "bitxor", token.SHL: "bitshl", token.SHR: "bitshr", token.AND_NOT: "bitandnot"}[x.Op]
		if fn == "" {
			fn = name
		}
		vc.eng.needFun(vc, fn, []string{"Int", "Int"}, "Int")
		return app("Int", fn, a, b)
	}
}

func (vc *FuncVC) convert(s *State, x *ssa.Convert) {
	v := vc.val(s, x.X)
	from := vc.ss.sortOf(x.X.Type())
	to := vc.ss.sortOf(x.Type())
	switch {
	case from == to:
		vc.setReg(x, v)
	case from == "Int" && to == "Real":
		vc.setReg(x, app("Real", "to_real", v))
	case from == "Real" && to == "Int":
		vc.eng.needFun(vc, "f2i", []string{"Real"}, "Int")
		vc.setReg(x, app("Int", "f2i", v))
	case from == "Slice" && to == "String":
		vc.eng.needFun(vc, "bytes2str", []string{"(Array Int Int)", "Int", "Int"}, "String")
		h := vc.get(s, "A:Int", "(Array Int (Array Int Int))")
		vc.setReg(x, T("String", fmt.Sprintf("(bytes2str (select %s (s!arr %s)) (s!off %s) (s!len %s))", h.S, v.S, v.S, v.S)))
	case from == "String" && to == "Slice":
		vc.eng.needFun(vc, "str2bytes", []string{"String"}, "(Array Int Int)")
		r := vc.freshRef(s, "strbytes")
		vc.noteWrite("alloc")
		hs := "(Array Int (Array Int Int))"
		h := vc.get(s, "A:Int", hs)
		vc.set(s, "A:Int", app(hs, "store", h, r, app("(Array Int Int)", "str2bytes", v)))
		vc.noteWrite("A:Int")
		vc.setReg(x, T("Slice", fmt.Sprintf("(mkS %s 0 (str.len %s) (str.len %s))", r.S, v.S, v.S)))
	case from == "Int" && to == "String":
		vc.eng.needFun(vc, "rune2str", []string{"Int"}, "String")
		vc.setReg(x, app("String", "rune2str", v))
	default:
		vc.outsideSubset("convert %s -> %s", x.X.Type(), x.Type())
		vc.setReg(x, vc.freshConst("conv", to))
	}
}

func (vc *FuncVC) sliceOp(s *State, x *ssa.Slice) {
	lo := T("Int", "0")
	if x.Low != nil {
		lo = vc.val(s, x.Low)
	}
	switch ut := x.X.Type().Underlying().(type) {
	case *types.Slice:
		v := vc.val(s, x.X)
		hi := app("Int", "s!len", v)
		if x.High != nil {
			hi = vc.val(s, x.High)
		}
		vc.safety(s, "safe.slice", "slice:"+vc.describe(x.X), x.Pos(), T("Bool", fmt.Sprintf("(and (<= 0 %s) (<= %s %s) (<= %s (s!cap %s)))", lo.S, lo.S, hi.S, hi.S, v.S)))
		cp := T("Int", fmt.Sprintf("(- (s!cap %s) %s)", v.S, lo.S))
		if x.Max != nil {
			cp = T("Int", fmt.Sprintf("(- %s %s)", vc.val(s, x.Max).S, lo.S))
		}
		vc.setReg(x, T("Slice", fmt.Sprintf("(mkS (s!arr %s) (+ (s!off %s) %s) (- %s %s) %s)", v.S, v.S, lo.S, hi.S, lo.S, cp.S)))
	case *types.Basic: // string
		v := vc.val(s, x.X)
		hi := app("Int", "str.len", v)
		if x.High != nil {
			hi = vc.val(s, x.High)
		}
		vc.safety(s, "safe.slice", "slice:"+vc.describe(x.X), x.Pos(), T("Bool", fmt.Sprintf("(and (<= 0 %s) (<= %s %s) (<= %s (str.len %s)))", lo.S, lo.S, hi.S, hi.S, v.S)))
		vc.setReg(x, T("String", fmt.Sprintf("(str.substr %s %s (- %s %s))", v.S, lo.S, hi.S, lo.S)))
	case *types.Pointer:
		at := ut.Elem().Underlying().(*types.Array)
		ref := vc.val(s, x.X)
		hi := intLit(at.Len())
		if x.High != nil {
			hi = vc.val(s, x.High)
		}
		vc.safety(s, "safe.slice", "slice:"+vc.describe(x.X), x.Pos(), T("Bool", fmt.Sprintf("(and (<= 0 %s) (<= %s %s) (<= %s %d))", lo.S, lo.S, hi.S, hi.S, at.Len())))
		vc.setReg(x, T("Slice", fmt.Sprintf("(mkS %s %s (- %s %s) (- %d %s))", ref.S, lo.S, hi.S, lo.S, at.Len(), lo.S)))
	default:
		vc.outsideSubset("slice of %s", x.X.Type())
	}
}

func (vc *FuncVC) typeAssert(s *State, x *ssa.TypeAssert) {
	v := vc.val(s, x.X)
	var ok Term
	var val Term
	rs := vc.ss.sortOf(x.AssertedType)
	if _, isIface := x.AssertedType.Underlying().(*types.Interface); isIface {
		ok = vc.implementsTerm(v, x.X.Type(), x.AssertedType)
		val = v
	} else {
		tag := vc.ss.typeTag(x.AssertedType)
		ok = T("Bool", fmt.Sprintf("(= (i!dyn %s) %d)", v.S, tag))
		val = vc.unboxPayload(app("Int", "i!pl", v), rs)
	}
	if x.CommaOk {
		r := ite(ok, val, vc.ss.zero(rs))
		r.GoT = x.AssertedType
		vc.tuples[x] = []Term{r, ok}
		return
	}
	vc.safety(s, "safe.assert", "assert:"+vc.describe(x.X)+".("+shortType(x.AssertedType)+")", x.Pos(), ok)
	vc.setReg(x, val)
}

// implementsTerm: does interface value v (static type st) satisfy interface it?
func (vc *FuncVC) implementsTerm(v Term, st types.Type, it types.Type) Term {
	nonnil := not(eq(v, T("Iface", "(mkI 0 0)")))
	if sti, ok := st.Underlying().(*types.Interface); ok {
		if iti, ok2 := it.Underlying().(*types.Interface); ok2 {
			if types.Implements(sti, iti) || iti.NumMethods() == 0 {
				return nonnil
			}
		}
	}
	tag := vc.ss.typeTag(it)
	vc.eng.noteIfaceTag(vc, tag, it)
	return and(nonnil, T("Bool", fmt.Sprintf("(implements (i!dyn %s) %d)", v.S, tag)))
}

// ---------------------------------------------------------------------------
// returns

func (vc *FuncVC) doReturn(s *State, r *ssa.Return, b *ssa.BasicBlock) {
	n := vc.cur.retOrd[b]
	var res []Term
	for _, v := range r.Results {
		res = append(res, vc.val(s, v))
	}
	if vc.cur.inlined {
		vc.cur.rets = append(vc.cur.rets, retState{s: s, res: res})
		return
	}
	vc.cover(fmt.Sprintf("return#%d", n), r.Pos(), s.pc)
	if vc.c == nil {
		return
	}
	e := vc.newEnv(s, vc.entry, r.Pos())
	vc.bindFreeVars(e, vc.entry, vc.fn, func(fv *ssa.FreeVar) Term { return vc.regs[fv] })
	for k, v := range vc.params {
		e.vars[k] = v
	}
	vc.bindResults(e, vc.c, vc.fn.Signature, res)
	if ss := vc.c.Sites[fmt.Sprintf("return#%d", n)]; ss != nil {
		for i, cl := range ss.Asserts {
			if cl.active(vc.prop) {
				vc.oblige("site", fmt.Sprintf("site@return#%d:%s", n, clauseName(cl, i)), cl.Src, r.Pos(), s.pc, vc.tr(e, cl.E))
			}
		}
	}
	vc.resWatch = nil
	if vc.replayable {
		for i, rt := range res {
			vc.resWatch = append(vc.resWatch, vc.watchOf(fmt.Sprintf("result%d", i), rt, vc.fn.Signature.Results().At(i).Type())...)
		}
	}
	for i, cl := range vc.c.Ens {
		if !cl.active(vc.prop) {
			continue
		}
		f := vc.tr(e, cl.E)
		vc.oblige("post", fmt.Sprintf("post@return#%d:%s", n, clauseName(cl, i)), cl.Src, r.Pos(), s.pc, f)
	}
	// frame: everything written must be declared
	vc.frameCheck(s, r.Pos(), n)
}

func (vc *FuncVC) bindResults(e *env, c *Contract, sig *types.Signature, res []Term) {
	names := resultNames(c, sig)
	for i, t := range res {
		if i < len(names) {
			for _, n := range names[i] {
				e.vars[n] = t
			}
		}
	}
}

func resultNames(c *Contract, sig *types.Signature) [][]string {
	n := sig.Results().Len()
	out := make([][]string, n)
	for i := 0; i < n; i++ {
		v := sig.Results().At(i)
		if c != nil && i < len(c.Results) {
			out[i] = append(out[i], c.Results[i])
		}
		if v.Name() != "" && v.Name() != "_" {
			out[i] = append(out[i], v.Name())
		}
		if n == 1 {
			out[i] = append(out[i], "result")
		}
		out[i] = append(out[i], fmt.Sprintf("result%d", i))
		if i == n-1 && types.TypeString(v.Type(), nil) == "error" && v.Name() == "" {
			out[i] = append(out[i], "err")
		}
	}
	return out
}

func (vc *FuncVC) frameCheck(s *State, pos token.Pos, n int) {
	if vc.dry || vc.c == nil {
		return
	}
	declared := map[string]bool{}
	for _, m := range vc.c.Mods {
		base := m
		if i := strings.Index(m, "["); i >= 0 {
			base = m[:i]
		}
		if k, _, ok := vc.stateKey(base); ok {
			declared[k] = true
		} else {
			declared[base] = true
		}
	}
	for _, k := range sortedKeysB(vc.writesSeen) {
		if strings.HasPrefix(k, "L:") || strings.HasPrefix(k, "D:") || strings.HasPrefix(k, "DA:") || strings.HasPrefix(k, "IT:") || k == "alloc" || k == "G:deferredUnlock" {
			continue
		}
		if declared[k] {
			continue
		}
		if !strings.HasPrefix(k, "G:") {
			// heap locations: only a frame violation if the value can differ from entry
			cur, ok := s.vars[k]
			if !ok {
				continue
			}
			init := vc.get(vc.init, k, cur.Sort)
			if cur.S == init.S {
				continue
			}
			if vc.frameReported[k] {
				continue
			}
			// heap writes to freshly allocated objects are invisible to callers; the check is
			// that on previously allocated references the heap is unchanged.
			al := vc.get(vc.init, "alloc", "(Array Int Bool)")
			_, vs := splitArraySort(cur.Sort)
			_ = vs
			_ = al
			f := vc.frameFormula(cur, init)
			vc.oblige("frame", fmt.Sprintf("frame@return#%d:%s", n, k), "unchanged(allocated) "+k+" (not in modifies)", pos, s.pc, f)
			continue
		}
		cur, ok := s.vars[k]
		if !ok {
			continue
		}
		init := vc.get(vc.init, k, cur.Sort)
		vc.oblige("frame", fmt.Sprintf("frame@return#%d:%s", n, k), "unchanged "+k+" (not in modifies)", pos, s.pc, eq(cur, init))
	}
}

// literalRangeLen returns N>0 if the loop is "for ... := range <slice literal of N elements>"
// (the ranged value is a full slice of a [N]T array allocated for a composite literal), else 0.
func literalRangeLen(li *loopInfo) int {
	if li.header.Comment != "rangeindex.loop" {
		return 0
	}
	// the header compares the index with len(x); find that len call's argument
	for _, in := range li.header.Instrs {
		bo, ok := in.(*ssa.BinOp)
		if !ok {
			continue
		}
		call, ok := bo.Y.(*ssa.Call)
		if !ok {
			continue
		}
		if b, ok := call.Call.Value.(*ssa.Builtin); !ok || b.Name() != "len" {
			continue
		}
		v := call.Call.Args[0]
		for {
			switch x := v.(type) {
			case *ssa.UnOp:
				// load of a local that is stored exactly once
				if a, ok := x.X.(*ssa.Alloc); ok {
					var st *ssa.Store
					n := 0
					for _, r := range *a.Referrers() {
						if s, ok := r.(*ssa.Store); ok && s.Addr == a {
							st = s
							n++
						}
					}
					if n == 1 {
						v = st.Val
						continue
					}
				}
				return 0
			case *ssa.Slice:
				if x.Low != nil || x.High != nil || x.Max != nil {
					return 0
				}
				if a, ok := x.X.(*ssa.Alloc); ok && a.Comment == "slicelit" {
					if at, ok := a.Type().Underlying().(*types.Pointer).Elem().Underlying().(*types.Array); ok && at.Len() <= 64 {
						return int(at.Len())
					}
				}
				return 0
			default:
				return 0
			}
		}
	}
	return 0
}
