package main

import (
	"sync"
	"fmt"
	"go/constant"
	"go/token"
	"go/types"
	"strings"

	"golang.org/x/tools/go/ssa"
)

// ---------------------------------------------------------------------------
// Obligations and script items

type Obligation struct {
	ID      string  `json:"id"`
	Prop    string  `json:"property"`
	Func    string  `json:"func"`
	Kind    string  `json:"kind"`
	Clause  string  `json:"clause"`
	Pos     string  `json:"pos"`
	Expect  string  `json:"expect"` // "unsat" (proof obligation) or "sat" (cover)
	Verdict string  `json:"verdict"`
	By      string  `json:"by,omitempty"`
	TimeS   float64 `json:"time_s"`
	Model   string  `json:"model,omitempty"`
	Raw     string  `json:"solver_output,omitempty"`
	PerSolver map[string]string `json:"per_solver,omitempty"`
	Quant   bool    `json:"quantified,omitempty"`
	pc, f   Term
	idx     int
	blk     *ssa.BasicBlock // block of the function under verification in which it arises (nil: entry)
	skipCheck bool          // cover.info not sampled in the quick tier
	watch   []watchTerm // terms to evaluate in a model (counterexample replay)
	Values  map[string]string `json:"values,omitempty"` // label -> value of the watched terms in the solver's model
}

// watchTerm is one term whose value in a counterexample is read back with get-value.
type watchTerm struct{ Label, S string }

type item struct {
	line string
	ob   *Obligation
	blk  *ssa.BasicBlock // block of the function under verification during which the line was emitted (nil: entry)
}

// ---------------------------------------------------------------------------
// State

type State struct {
	pc   Term
	vars map[string]Term
}

func (s *State) clone() *State {
	n := &State{pc: s.pc, vars: make(map[string]Term, len(s.vars))}
	for k, v := range s.vars {
		n.vars[k] = v
	}
	return n
}

type pathElem struct {
	field int   // struct field index, or -1
	idx   *Term // array index
	st    types.Type
}

type Addr struct {
	kind string // local heapField cell arr global
	key  string // local: state key; global: state key
	base Term   // heapField/cell: ref; arr: array ref
	idx  Term   // arr: index
	typ  types.Type // type of the root value stored at this location
	path []pathElem
	elem types.Type // type of the addressed value (after path)
}

type closureInfo struct {
	fn       *ssa.Function
	bindings []Term
	bindVals []ssa.Value
}

type loopInfo struct {
	header  *ssa.BasicBlock
	blocks  map[*ssa.BasicBlock]bool
	ord     int
	backs   []*ssa.BasicBlock
	writes  map[string]bool
	spec    *LoopSpec
	decSnap *Term
	frameKeys []string
	autoTerm bool
	unroll   int
	autoIter *ssa.Alloc
	cellWrites map[string][]ssa.Value
	pos     token.Pos
}

// frame holds the per-function CFG analysis. The function under contract has the top frame;
// repo functions called without a contract are inlined, each in its own frame.
type frame struct {
	fn          *ssa.Function
	loops       map[*ssa.BasicBlock]*loopInfo
	callOrd     map[ssa.Instruction]int
	callKeyOf   map[ssa.Instruction]string
	retOrd      map[*ssa.BasicBlock]int
	deferSites  []*ssa.Defer
	deferInLoop map[*ssa.Defer]bool
	c           *Contract
	prefix      string // prefix of state keys of locals / defers and of obligation names
	inlined     bool
	rets        []retState
}

type retState struct {
	s   *State
	res []Term
}

type FuncVC struct {
	cur    *frame
	frames map[*ssa.Function]*frame
	stack  []*ssa.Function
	eng  *Engine
	fn   *ssa.Function
	key  string
	prop string
	c    *Contract
	ss   *Sorts

	declOrder []string
	declared  map[string]string
	items     []item
	obls      []*Obligation

	regs     map[ssa.Value]Term
	addrs    map[ssa.Value]*Addr
	tuples   map[ssa.Value][]Term
	closures map[string]*closureInfo
	fresh    map[string]bool // fresh ref terms
	init     *State
	entry    *State
	nfresh   int
	params   map[string]Term
	paramList []Term
	replayable bool        // package-level function over basic types: a counterexample can be run on the real code
	paramWatch []watchTerm // parameters, read back from a counterexample
	resWatch   []watchTerm // results at the return being checked


	outside   []string // reasons this function is outside the subset
	uncontracted map[string]bool
	assumedUsed  map[string]bool
	writesSeen   map[string]bool
	useQuantSlices bool
	lastCallbacks *callbacksSite
	curBlock *ssa.BasicBlock
	topBlock *ssa.BasicBlock // current block of the outermost frame (the function under verification)
	reachTo  map[*ssa.BasicBlock]map[*ssa.BasicBlock]bool
	reachMu  sync.Mutex
	prepared   bool
	fullScript string
	preRes     map[int]string // first-pass answers obtained in a batch
	preOut     string
	preSecs    float64
	groups   map[int][]int // leader obligation index -> members checked jointly in the first pass
	groupMu  sync.Mutex
	lets     map[string]Term // entry-state definitions of the contract under verification
	notes []string
	counters map[string]int
	dry bool
	abort bool
	edgePC map[edgeF]Term
	sitesUsed map[string]bool
	frameReported map[string]bool
	specErrors []string
	funDecls map[string]string
	funOrder []string
	ifaceTags map[int]types.Type
	heapSorts map[string]string
	usedContracts map[string]bool
	deferKeys []Term
	allocs []*ssa.Alloc
	subSeen map[string]bool
	freshList []Term
	entryRefs []Term
	curPos token.Pos
	inlinedFns map[string]bool
	inlineOuter []savedBlockLoops
}

type savedBlockLoops struct {
	fr *frame
	b  *ssa.BasicBlock
}

type callbacksSite struct {
	recvT types.Type
	recv  Term
	other Term
}

func (vc *FuncVC) emit(format string, args ...interface{}) {
	vc.items = append(vc.items, item{line: fmt.Sprintf(format, args...), blk: vc.topBlock})
}

func (vc *FuncVC) declare(name, sort string) {
	if _, ok := vc.declared[name]; ok {
		return
	}
	vc.declared[name] = sort
	vc.declOrder = append(vc.declOrder, name)
}

func (vc *FuncVC) freshConst(hint, sort string) Term {
	vc.nfresh++
	name := fmt.Sprintf("%s!%d", smtIdent(hint), vc.nfresh)
	vc.declare(name, sort)
	return T(sort, name)
}

func (vc *FuncVC) assume(pc, f Term) {
	if f.S == "true" {
		return
	}
	vc.emit("(assert %s)", imp(pc, f).S)
}

func (vc *FuncVC) outsideSubset(format string, args ...interface{}) {
	vc.outside = append(vc.outside, fmt.Sprintf(format, args...))
}

func (vc *FuncVC) posStr(p token.Pos) string {
	if !p.IsValid() {
		return ""
	}
	ps := vc.eng.fset.Position(p)
	return fmt.Sprintf("%s:%d", strings.TrimPrefix(ps.Filename, "/repo/"), ps.Line)
}

// oblige records a proof obligation: under pc, f must hold. Afterwards f is assumed.
func (vc *FuncVC) oblige(kind, name, clause string, pos token.Pos, pc, f Term) *Obligation {
	if vc.cur != nil && vc.cur.prefix != "" {
		name = vc.cur.prefix + name
	}
	ob := &Obligation{
		ID: vc.prop + "/" + vc.key + "/" + name, Prop: vc.prop, Func: vc.key, Kind: kind,
		Clause: clause, Pos: vc.posStr(pos), Expect: "unsat", pc: pc, f: f,
		Quant: strings.Contains(f.S, "(forall ") || strings.Contains(f.S, "(exists "),
	}
	// unique ids
	base := ob.ID
	for n := 2; vc.hasOb(ob.ID); n++ {
		ob.ID = fmt.Sprintf("%s~%d", base, n)
	}
	if vc.replayable && (vc.cur == nil || !vc.cur.inlined) {
		ob.watch = append(ob.watch, vc.paramWatch...)
		if kind == "post" {
			ob.watch = append(ob.watch, vc.resWatch...)
		}
	}
	vc.obls = append(vc.obls, ob)
	ob.blk = vc.topBlock
	vc.items = append(vc.items, item{ob: ob, blk: vc.topBlock})
	return ob
}

func (vc *FuncVC) hasOb(id string) bool {
	for _, o := range vc.obls {
		if o.ID == id {
			return true
		}
	}
	return false
}

func (vc *FuncVC) cover(name string, pos token.Pos, pc Term) {
	kind := "cover"
	if name != "entry" {
		kind = "cover.info" // unreachable returns are reported, not failed: dead code is not a violation
	}
	ob := &Obligation{ID: vc.prop + "/" + vc.key + "/cover:" + name, Prop: vc.prop, Func: vc.key, Kind: kind,
		Clause: "reachable", Pos: vc.posStr(pos), Expect: "sat", pc: pc, f: tTrue}
	if vc.replayable && (vc.cur == nil || !vc.cur.inlined) {
		ob.watch = append(ob.watch, vc.paramWatch...)
		if kind == "post" {
			ob.watch = append(ob.watch, vc.resWatch...)
		}
	}
	vc.obls = append(vc.obls, ob)
	ob.blk = vc.topBlock
	vc.items = append(vc.items, item{ob: ob, blk: vc.topBlock})
}

// ---------------------------------------------------------------------------
// state access

func (vc *FuncVC) get(s *State, key, sort string) Term {
	if t, ok := s.vars[key]; ok {
		return t
	}
	if t, ok := vc.init.vars[key]; ok {
		return t
	}
	name := "s0!" + smtIdent(key)
	vc.declare(name, sort)
	t := T(sort, name)
	vc.init.vars[key] = t
	vc.initFacts(key, t)
	return t
}

func (vc *FuncVC) set(s *State, key string, t Term) {
	s.vars[key] = vc.nameTerm(t, key)
	vc.writesSeen[key] = true
}

// nameTerm gives long terms a name so that the script stays linear in the program size.
func (vc *FuncVC) nameTerm(t Term, hint string) Term {
	return vc.nameTermMin(t, hint, 160)
}

func (vc *FuncVC) nameTermMin(t Term, hint string, min int) Term {
	if len(t.S) <= min {
		return t
	}
	n := vc.freshConst("d_"+hint, t.Sort)
	n.GoT = t.GoT
	vc.emit("(assert (= %s %s))", n.S, t.S)
	return n
}

func (vc *FuncVC) initFacts(key string, t Term) {
	switch {
	case strings.HasPrefix(key, "MD:"):
		// the nil map has an empty domain
		_, v := splitArraySort(t.Sort)
		vc.emit("(assert (= (select %s 0) ((as const %s) false)))", t.S, v)
	case key == "alloc":
		vc.emit("(assert (not (select %s 0)))", t.S)
	}
	if strings.HasPrefix(key, "GL:") {
		vc.eng.globalFacts(vc, key, t)
	}
}

func (vc *FuncVC) ghostSort(name string) (string, bool) {
	for _, g := range vc.eng.specs.Ghosts {
		if g.Name == name {
			return g.Sort, true
		}
	}
	return "", false
}

// stateKey resolves a name used in a modifies clause to a state key and sort.
func (vc *FuncVC) stateKey(name string) (string, string, bool) {
	if s, ok := vc.ghostSort(name); ok {
		return "G:" + name, s, true
	}
	if strings.HasPrefix(name, "H:") {
		if i := strings.LastIndex(name, "."); i > 2 {
			if srt, ok := vc.sortOfKey(name); ok {
				return "H:" + smtIdent(name[2:i]) + name[i:], srt, true
			}
		}
	}
	if strings.Contains(name, ":") {
		// explicit key; sort must be known from init or derivable
		if t, ok := vc.init.vars[name]; ok {
			return name, t.Sort, true
		}
		if s, ok := vc.sortOfKey(name); ok {
			return name, s, true
		}
	}
	return "", "", false
}

func (vc *FuncVC) sortOfKey(key string) (string, bool) {
	switch {
	case strings.HasPrefix(key, "C:"):
		return "(Array Int " + key[2:] + ")", true
	case strings.HasPrefix(key, "A:"):
		return "(Array Int (Array Int " + key[2:] + "))", true
	case strings.HasPrefix(key, "H:"):
		if s, ok := vc.heapSorts[key]; ok {
			return s, true
		}
		// "H:<type>.<field>" with <type> as written by typeByName
		if i := strings.LastIndex(key, "."); i > 2 {
			if t := vc.eng.typeByName(key[2:i]); t != nil {
				if st, ok := t.Underlying().(*types.Struct); ok {
					for f := 0; f < st.NumFields(); f++ {
						if st.Field(f).Name() == key[i+1:] {
							_, srt := vc.heapFieldKey(t, f)
							return srt, true
						}
					}
				}
			}
		}
	case strings.HasPrefix(key, "MD:"):
		p := strings.SplitN(key[3:], ":", 2)
		return "(Array Int (Array " + p[0] + " Bool))", true
	case strings.HasPrefix(key, "MV:"):
		p := strings.SplitN(key[3:], ":", 2)
		return "(Array Int (Array " + p[0] + " " + p[1] + "))", true
	case key == "alloc":
		return "(Array Int Bool)", true
	}
	return "", false
}

func (vc *FuncVC) heapFieldKey(structT types.Type, field int) (string, string) {
	info := vc.ss.structInfoOf(structT)
	st := structT.Underlying().(*types.Struct)
	key := "H:" + strings.TrimPrefix(info.name, "St_") + "." + st.Field(field).Name()
	sort := "(Array Int " + info.sorts[field] + ")"
	vc.heapSorts[key] = sort
	return key, sort
}

// ---------------------------------------------------------------------------
// loads and stores

func (vc *FuncVC) elemType(t types.Type) types.Type {
	switch u := t.Underlying().(type) {
	case *types.Pointer:
		return u.Elem()
	case *types.Slice:
		return u.Elem()
	case *types.Array:
		return u.Elem()
	case *types.Map:
		return u.Elem()
	}
	return t
}

func (vc *FuncVC) selectPath(root Term, rootT types.Type, path []pathElem) Term {
	cur := root
	curT := rootT
	for _, pe := range path {
		if pe.field >= 0 {
			info := vc.ss.structInfoOf(curT)
			st := curT.Underlying().(*types.Struct)
			cur = app(info.sorts[pe.field], info.fields[pe.field], cur)
			curT = st.Field(pe.field).Type()
		} else {
			et := curT.Underlying().(*types.Array).Elem()
			cur = app(vc.ss.sortOf(et), "select", cur, *pe.idx)
			curT = et
		}
	}
	cur.GoT = curT
	return cur
}

func (vc *FuncVC) updatePath(root Term, rootT types.Type, path []pathElem, v Term) Term {
	if len(path) == 0 {
		return v
	}
	pe := path[0]
	if pe.field >= 0 {
		info := vc.ss.structInfoOf(rootT)
		st := rootT.Underlying().(*types.Struct)
		var args []Term
		for i := range info.fields {
			fv := app(info.sorts[i], info.fields[i], root)
			if i == pe.field {
				fv = vc.updatePath(fv, st.Field(i).Type(), path[1:], v)
			}
			args = append(args, fv)
		}
		return app(info.name, "mk!"+info.name, args...)
	}
	et := rootT.Underlying().(*types.Array).Elem()
	inner := app(vc.ss.sortOf(et), "select", root, *pe.idx)
	return app(root.Sort, "store", root, *pe.idx, vc.updatePath(inner, et, path[1:], v))
}

// elemInv returns the global element invariant for values of Go type t applied to v (or true).
func (vc *FuncVC) elemInv(s *State, t types.Type, v Term) (Term, string) {
	if t == nil {
		return tTrue, ""
	}
	tn := normType(t)
	for _, ei := range vc.eng.specs.ElemInvs {
		if ei.Type != tn {
			continue
		}
		act := false
		for _, tg := range ei.Tags {
			if tg == "base" || tg == vc.prop {
				act = true
			}
		}
		if !act {
			continue
		}
		e := vc.newEnv(s, s, token.NoPos)
		e.noLocals = true
		v.GoT = t
		e.vars["x"] = v
		return vc.tr(e, ei.E), ei.Src
	}
	return tTrue, ""
}

func (vc *FuncVC) loadAddr(s *State, a *Addr) Term {
	t := vc.loadAddr1(s, a)
	// a slice or pointer read from the heap (a field, a cell, an array element) refers to something that
	// has been allocated: the heap holds no dangling references. Needed so that a later allocation cannot
	// be taken for the array or object it refers to.
	if vc.useQuantSlices && !vc.dry && (a.kind == "heapField" || a.kind == "arr" || a.kind == "cell") && a.elem != nil && len(t.S) < 4000 {
		al := vc.get(s, "alloc", "(Array Int Bool)")
		switch a.elem.Underlying().(type) {
		case *types.Slice:
			if t.Sort == "Slice" {
				vc.assume(s.pc, T("Bool", fmt.Sprintf("(or (= (s!arr %s) 0) (select %s (s!arr %s)))", t.S, al.S, t.S)))
				vc.assume(s.pc, T("Bool", fmt.Sprintf("(and (>= (s!len %s) 0) (>= (s!off %s) 0) (>= (s!cap %s) (s!len %s)) (=> (= (s!arr %s) 0) (= (s!cap %s) 0)))", t.S, t.S, t.S, t.S, t.S, t.S)))
			}
		case *types.Pointer:
			if t.Sort == "Int" {
				vc.assume(s.pc, T("Bool", fmt.Sprintf("(or (= %s 0) (select %s %s))", t.S, al.S, t.S)))
			}
		}
	}
	return t
}

func (vc *FuncVC) loadAddr1(s *State, a *Addr) Term {
	if a.kind == "arr" && len(a.path) == 0 {
		t := vc.loadAddr0(s, a)
		if f, src := vc.elemInv(s, a.typ, t); f.S != "true" {
			vc.assume(s.pc, f)
			vc.assumedUsed["global element invariant on "+normType(a.typ)+": "+src+" (checked at every store in the functions under contract, assumed at loads; application-provided slices are assumed to satisfy it)"] = true
		}
		return t
	}
	return vc.loadAddr0(s, a)
}

func (vc *FuncVC) loadAddr0(s *State, a *Addr) Term {
	switch a.kind {
	case "local", "global":
		root := vc.get(s, a.key, vc.ss.sortOf(a.typ))
		return vc.selectPath(root, a.typ, a.path)
	case "heapField":
		f0 := a.path[0]
		root := vc.heapLoadField(s, a.base, a.typ, f0.field)
		ft := a.typ.Underlying().(*types.Struct).Field(f0.field).Type()
		return vc.selectPath(root, ft, a.path[1:])
	case "cell":
		sort := vc.ss.sortOf(a.typ)
		h := vc.get(s, "C:"+sort, "(Array Int "+sort+")")
		root := app(sort, "select", h, a.base)
		return vc.selectPath(root, a.typ, a.path)
	case "arr":
		sort := vc.ss.sortOf(a.typ)
		h := vc.get(s, "A:"+sort, "(Array Int (Array Int "+sort+"))")
		root := app(sort, "select", app("(Array Int "+sort+")", "select", h, a.base), a.idx)
		return vc.selectPath(root, a.typ, a.path)
	}
	panic("bad addr kind " + a.kind)
}

func (vc *FuncVC) storeAddr(s *State, a *Addr, v Term) {
	if a.kind == "arr" && len(a.path) == 0 {
		if f, src := vc.elemInv(s, a.typ, v); f.S != "true" {
			n := vc.siteCounter("safe.elem")
			vc.oblige("safe.elem", fmt.Sprintf("safe.elem@store#%d", n), "element invariant of "+normType(a.typ)+": "+src, vc.curPos, s.pc, f)
		}
	}
	switch a.kind {
	case "local", "global":
		root := vc.get(s, a.key, vc.ss.sortOf(a.typ))
		vc.set(s, a.key, vc.updatePath(root, a.typ, a.path, v))
	case "heapField":
		f0 := a.path[0]
		root := vc.heapLoadField(s, a.base, a.typ, f0.field)
		ft := a.typ.Underlying().(*types.Struct).Field(f0.field).Type()
		nv := vc.updatePath(root, ft, a.path[1:], v)
		vc.heapStoreField(s, a.base, a.typ, f0.field, nv)
	case "cell":
		sort := vc.ss.sortOf(a.typ)
		hs := "(Array Int " + sort + ")"
		h := vc.get(s, "C:"+sort, hs)
		root := app(sort, "select", h, a.base)
		nv := vc.updatePath(root, a.typ, a.path, v)
		vc.set(s, "C:"+sort, app(hs, "store", h, a.base, nv))
	case "arr":
		sort := vc.ss.sortOf(a.typ)
		is := "(Array Int " + sort + ")"
		hs := "(Array Int " + is + ")"
		h := vc.get(s, "A:"+sort, hs)
		inner := app(is, "select", h, a.base)
		root := app(sort, "select", inner, a.idx)
		nv := vc.updatePath(root, a.typ, a.path, v)
		vc.set(s, "A:"+sort, app(hs, "store", h, a.base, app(is, "store", inner, a.idx, nv)))
	default:
		panic("bad addr kind " + a.kind)
	}
}

// subRef is the reference of a struct-typed field nested inside a heap struct: nested
// structs are addressed through an injective derived reference, so that a pointer to an
// embedded struct (&b.baseActor) and the outer pointer see the same memory.
func (vc *FuncVC) subRef(ref Term, structT types.Type, field int) Term {
	info := vc.ss.structInfoOf(structT)
	st := structT.Underlying().(*types.Struct)
	fn := "sub!" + strings.TrimPrefix(info.name, "St_") + "!" + smtIdent(st.Field(field).Name())
	vc.eng.needFun(vc, fn, []string{"Int"}, "Int")
	vc.eng.needFun(vc, "un"+fn, []string{"Int"}, "Int")
	t := app("Int", fn, ref)
	if !vc.subSeen[t.S] {
		// injectivity and non-nil-ness, instantiated at this term (quantifier-free)
		vc.subSeen[t.S] = true
		vc.emit("(assert (and (> %s 0) (= (un%s %s) %s)))", t.S, fn, t.S, ref.S)
		if vc.init != nil {
			// a nested struct is part of its outer struct's allocation
			al := vc.get(vc.init, "alloc", "(Array Int Bool)")
			vc.emit("(assert (= (select %s %s) (select %s %s)))", al.S, t.S, al.S, ref.S)
		}
	}
	return t
}

func (vc *FuncVC) heapLoadField(s *State, ref Term, structT types.Type, field int) Term {
	st := structT.Underlying().(*types.Struct)
	ft := st.Field(field).Type()
	if isStruct(ft) {
		return vc.loadStructFromHeap(s, vc.subRef(ref, structT, field), ft)
	}
	key, sort := vc.heapFieldKey(structT, field)
	h := vc.get(s, key, sort)
	_, vs := splitArraySort(sort)
	r := app(vs, "select", h, ref)
	r.GoT = ft
	return r
}

func (vc *FuncVC) heapStoreField(s *State, ref Term, structT types.Type, field int, v Term) {
	st := structT.Underlying().(*types.Struct)
	ft := st.Field(field).Type()
	if isStruct(ft) {
		vc.storeStructToHeap(s, vc.subRef(ref, structT, field), ft, v)
		return
	}
	key, sort := vc.heapFieldKey(structT, field)
	h := vc.get(s, key, sort)
	vc.set(s, key, app(sort, "store", h, ref, v))
	vc.noteWrite(key)
}

// loadStructFromHeap builds a struct value from the per-field heaps.
func (vc *FuncVC) loadStructFromHeap(s *State, ref Term, t types.Type) Term {
	info := vc.ss.structInfoOf(t)
	var args []Term
	for i := range info.fields {
		args = append(args, vc.heapLoadField(s, ref, t, i))
	}
	r := app(info.name, "mk!"+info.name, args...)
	r.GoT = t
	return r
}

func (vc *FuncVC) storeStructToHeap(s *State, ref Term, t types.Type, v Term) {
	info := vc.ss.structInfoOf(t)
	for i := range info.fields {
		vc.heapStoreField(s, ref, t, i, app(info.sorts[i], info.fields[i], v))
	}
}

func isStruct(t types.Type) bool {
	_, ok := t.Underlying().(*types.Struct)
	return ok
}

func isArray(t types.Type) bool {
	_, ok := t.Underlying().(*types.Array)
	return ok
}

func (vc *FuncVC) safety(s *State, kind, what string, pos token.Pos, f Term) {
	if f.S == "true" {
		return
	}
	if vc.prop == "C11" {
		n := vc.siteCounter(kind + ":" + what)
		vc.oblige(kind, fmt.Sprintf("%s@%s#%d", kind, what, n), what, pos, s.pc, f)
	} else {
		vc.assume(s.pc, f)
	}
}

func (vc *FuncVC) siteCounter(k string) int {
	if vc.counters == nil {
		vc.counters = map[string]int{}
	}
	vc.counters[k]++
	return vc.counters[k]
}

// ---------------------------------------------------------------------------
// values

func (vc *FuncVC) val(s *State, v ssa.Value) Term {
	switch x := v.(type) {
	case *ssa.Const:
		return vc.constTerm(x)
	case *ssa.Function:
		return vc.funcRef(x, nil, nil)
	case *ssa.Global:
		// address of a global used as a value: unsupported except via load/store
		vc.outsideSubset("address of global %s used as value", x.Name())
		return vc.freshConst("globaladdr", "Int")
	case *ssa.Builtin:
		return T("Int", "0")
	}
	if t, ok := vc.regs[v]; ok {
		return t
	}
	if _, ok := vc.addrs[v]; ok {
		vc.outsideSubset("address value %s escapes (%s)", v.Name(), vc.posStr(v.Pos()))
		t := vc.freshConst("addr", "Int")
		vc.regs[v] = t
		return t
	}
	// undefined register (e.g. defined in an unprocessed block): fresh
	t := vc.freshConst("undef_"+v.Name(), vc.ss.sortOf(v.Type()))
	t.GoT = v.Type()
	vc.regs[v] = t
	return t
}

func (vc *FuncVC) constTerm(c *ssa.Const) Term {
	sort := vc.ss.sortOf(c.Type())
	var t Term
	if c.Value == nil {
		t = vc.ss.zero(sort)
	} else {
		switch c.Value.Kind() {
		case constant.Bool:
			if constant.BoolVal(c.Value) {
				t = tTrue
			} else {
				t = tFalse
			}
		case constant.String:
			t = strLit(constant.StringVal(c.Value))
		case constant.Int:
			if sort == "Real" {
				f, _ := constant.Float64Val(c.Value)
				t = T("Real", realLit(f))
			} else if i, ok := constant.Int64Val(c.Value); ok {
				t = intLit(i)
			} else {
				t = T("Int", c.Value.ExactString())
			}
		case constant.Float:
			f, _ := constant.Float64Val(c.Value)
			if sort == "Int" {
				t = intLit(int64(f))
			} else {
				t = T("Real", realLit(f))
			}
		default:
			t = vc.ss.zero(sort)
		}
	}
	t.GoT = c.Type()
	return t
}

func realLit(f float64) string {
	s := fmt.Sprintf("%f", f)
	if f < 0 {
		return fmt.Sprintf("(- %s)", s[1:])
	}
	return s
}

func (vc *FuncVC) funcRef(fn *ssa.Function, bindings []Term, bvals []ssa.Value) Term {
	if len(bindings) == 0 {
		name := "fn!" + smtIdent(fnKey(fn))
		if _, ok := vc.declared[name]; !ok {
			vc.declare(name, "Int")
			vc.emit("(assert (> %s 0))", name)
			vc.emit("(assert (= (fnid %s) %d))", name, vc.eng.fnID(fnKey(fn)))
		}
		t := T("Int", name)
		vc.closures[name] = &closureInfo{fn: fn}
		return t
	}
	t := vc.freshConst("clo_"+fn.Name(), "Int")
	vc.emit("(assert (> %s 0))", t.S)
	vc.emit("(assert (= (fnid %s) %d))", t.S, vc.eng.fnID(fnKey(fn)))
	vc.closures[t.S] = &closureInfo{fn: fn, bindings: bindings, bindVals: bvals}
	return t
}

func (vc *FuncVC) boxPayload(v Term) Term {
	switch v.Sort {
	case "Int":
		return v
	default:
		name := "box!" + smtIdent(v.Sort)
		un := "unbox!" + smtIdent(v.Sort)
		vc.eng.needBox(vc, v.Sort)
		b := app("Int", name, v)
		vc.emit("(assert (= (%s %s) %s))", un, b.S, v.S)
		return b
	}
}

func (vc *FuncVC) unboxPayload(p Term, sort string) Term {
	if sort == "Int" {
		return p
	}
	vc.eng.needBox(vc, sort)
	return app(sort, "unbox!"+smtIdent(sort), p)
}

func (vc *FuncVC) freshRef(s *State, hint string) Term {
	r := vc.freshConst(hint, "Int")
	al := vc.get(s, "alloc", "(Array Int Bool)")
	vc.assume(tTrue, T("Bool", fmt.Sprintf("(> %s 0)", r.S)))
	vc.assume(s.pc, not(app("Bool", "select", al, r)))
	// allocation only grows, so r was not allocated at function entry either (stated directly: no
	// quantified monotonicity axiom is needed for the frame conditions)
	al0 := vc.get(vc.init, "alloc", "(Array Int Bool)")
	if al0.S != al.S {
		vc.assume(s.pc, not(app("Bool", "select", al0, r)))
	}
	s.vars["alloc"] = app("(Array Int Bool)", "store", al, r, tTrue)
	vc.fresh[r.S] = true
	vc.freshList = append(vc.freshList, r)
	return r
}


// ---------------------------------------------------------------------------
// counterexample replay: which functions can be called from a generated test with values read from a model

func basicReplayType(t types.Type) bool {
	switch types.TypeString(t, nil) {
	case "string", "bool", "int", "int64", "float64", "interface{}", "time.Duration", "error", "any":
		return true
	}
	return false
}

func (vc *FuncVC) initReplay() {
	fn := vc.fn
	vc.replayable = false
	vc.paramWatch, vc.resWatch = nil, nil
	if fn.Signature.Recv() != nil || fn.Parent() != nil || len(fn.FreeVars) > 0 || fn.Signature.Variadic() {
		return
	}
	for i := 0; i < fn.Signature.Params().Len(); i++ {
		t := fn.Signature.Params().At(i).Type()
		if !basicReplayType(t) || types.TypeString(t, nil) == "error" {
			return
		}
	}
	for i := 0; i < fn.Signature.Results().Len(); i++ {
		if !basicReplayType(fn.Signature.Results().At(i).Type()) {
			return
		}
	}
	vc.replayable = true
}

// watchOf lists the SMT terms that describe a value of a basic Go type.
func (vc *FuncVC) watchOf(label string, t Term, typ types.Type) []watchTerm {
	ts := types.TypeString(typ, nil)
	out := []watchTerm{{label + ":gotype:" + ts, "0"}}
	if t.Sort == "Iface" {
		for _, so := range []string{"String", "Real", "Bool", "Int"} {
			vc.eng.needBox(vc, so)
		}
		out = append(out, watchTerm{label + ":dyn", fmt.Sprintf("(i!dyn %s)", t.S)})
		out = append(out, watchTerm{label + ":String", fmt.Sprintf("(unbox!String (i!pl %s))", t.S)})
		out = append(out, watchTerm{label + ":Real", fmt.Sprintf("(unbox!Real (i!pl %s))", t.S)})
		out = append(out, watchTerm{label + ":Bool", fmt.Sprintf("(unbox!Bool (i!pl %s))", t.S)})
		out = append(out, watchTerm{label + ":Int", fmt.Sprintf("(i!pl %s)", t.S)})
		for _, bt := range []types.Type{types.Typ[types.String], types.Typ[types.Float64], types.Typ[types.Bool], types.Typ[types.Int], types.Typ[types.Int64]} {
			out = append(out, watchTerm{fmt.Sprintf("tag:%d:%s", vc.ss.typeTag(bt), bt.String()), "0"})
		}
		return out
	}
	return append(out, watchTerm{label + ":" + t.Sort, t.S})
}
