package main

import (
	"bufio"
	"fmt"
	"os"
	"path/filepath"
	"regexp"
	"strconv"
	"strings"
)

// ---------------------------------------------------------------------------
// Expression AST of the contract language

type Expr interface{}

type (
	EIdent  struct{ Name string }
	EInt    struct{ V int64 }
	EStr    struct{ V string }
	EBool   struct{ V bool }
	ENil    struct{}
	EUnary  struct {
		Op string
		X  Expr
	}
	EBinary struct {
		Op   string
		L, R Expr
	}
	ECall struct {
		Fun  Expr
		Args []Expr
	}
	ESel struct {
		X    Expr
		Name string
	}
	EIndex struct{ X, I Expr }
	EStore struct{ X, I, V Expr }
	EOld   struct{ X Expr }
	EIte   struct{ C, A, B Expr }
	EQuant struct {
		Forall bool
		Vars   []QVar
		Trig   [][]Expr
		Body   Expr
	}
	ERaw struct{ Sort, S string } // raw SMT text: smt(Sort, "text")
)

type QVar struct{ Name, Sort string }

// ---------------------------------------------------------------------------
// Lexer

type ltoken struct {
	kind string // id int str op eof
	s    string
}

type lexer struct {
	src  string
	pos  int
	toks []ltoken
}

var ops = []string{"<==>", "==>", "||", "&&", "==", "!=", "<=", ">=", "::", ":=", "<", ">", "+", "-", "*", "/", "%", "!", "(", ")", "[", "]", ",", ".", "?", ":", "{", "}"}

func lex(src string) ([]ltoken, error) {
	var toks []ltoken
	i := 0
	for i < len(src) {
		c := src[i]
		switch {
		case c == ' ' || c == '\t':
			i++
		case c >= '0' && c <= '9':
			j := i
			for j < len(src) && src[j] >= '0' && src[j] <= '9' {
				j++
			}
			toks = append(toks, ltoken{"int", src[i:j]})
			i = j
		case c == '"':
			j := i + 1
			var b strings.Builder
			for j < len(src) && src[j] != '"' {
				if src[j] == '\\' && j+1 < len(src) {
					j++
					switch src[j] {
					case 'n':
						b.WriteByte('\n')
					case 't':
						b.WriteByte('\t')
					default:
						b.WriteByte(src[j])
					}
					j++
					continue
				}
				b.WriteByte(src[j])
				j++
			}
			if j >= len(src) {
				return nil, fmt.Errorf("unterminated string in %q", src)
			}
			toks = append(toks, ltoken{"str", b.String()})
			i = j + 1
		case isIdentStart(c):
			j := i
			for j < len(src) && isIdentPart(src[j]) {
				j++
			}
			toks = append(toks, ltoken{"id", src[i:j]})
			i = j
		default:
			matched := false
			for _, o := range ops {
				if strings.HasPrefix(src[i:], o) {
					toks = append(toks, ltoken{"op", o})
					i += len(o)
					matched = true
					break
				}
			}
			if !matched {
				return nil, fmt.Errorf("bad character %q in %q", c, src)
			}
		}
	}
	toks = append(toks, ltoken{"eof", ""})
	return toks, nil
}

func isIdentStart(c byte) bool {
	return c == '_' || c == '$' || (c >= 'a' && c <= 'z') || (c >= 'A' && c <= 'Z')
}
func isIdentPart(c byte) bool { return isIdentStart(c) || (c >= '0' && c <= '9') }

// ---------------------------------------------------------------------------
// Parser (precedence climbing)

type parser struct {
	toks []ltoken
	p    int
	src  string
}

func parseExpr(src string) (Expr, error) {
	toks, err := lex(src)
	if err != nil {
		return nil, err
	}
	ps := &parser{toks: toks, src: src}
	e, err := ps.iff()
	if err != nil {
		return nil, err
	}
	if ps.peek().kind != "eof" {
		return nil, fmt.Errorf("unexpected %q in %q", ps.peek().s, src)
	}
	return e, nil
}

func (p *parser) peek() ltoken { return p.toks[p.p] }
func (p *parser) next() ltoken { t := p.toks[p.p]; p.p++; return t }
func (p *parser) isOp(s string) bool {
	t := p.peek()
	return t.kind == "op" && t.s == s
}
func (p *parser) expect(s string) error {
	if !p.isOp(s) {
		return fmt.Errorf("expected %q, got %q in %q", s, p.peek().s, p.src)
	}
	p.p++
	return nil
}

func (p *parser) iff() (Expr, error) {
	l, err := p.implies()
	if err != nil {
		return nil, err
	}
	for p.isOp("<==>") {
		p.next()
		r, err := p.implies()
		if err != nil {
			return nil, err
		}
		l = &EBinary{"<==>", l, r}
	}
	return l, nil
}

func (p *parser) implies() (Expr, error) {
	l, err := p.cond()
	if err != nil {
		return nil, err
	}
	if p.isOp("==>") {
		p.next()
		r, err := p.implies()
		if err != nil {
			return nil, err
		}
		return &EBinary{"==>", l, r}, nil
	}
	return l, nil
}

func (p *parser) cond() (Expr, error) {
	c, err := p.binary(0)
	if err != nil {
		return nil, err
	}
	if p.isOp("?") {
		p.next()
		a, err := p.cond()
		if err != nil {
			return nil, err
		}
		if err := p.expect(":"); err != nil {
			return nil, err
		}
		b, err := p.cond()
		if err != nil {
			return nil, err
		}
		return &EIte{c, a, b}, nil
	}
	return c, nil
}

var binPrec = []map[string]bool{
	{"||": true},
	{"&&": true},
	{"==": true, "!=": true, "<": true, "<=": true, ">": true, ">=": true},
	{"+": true, "-": true},
	{"*": true, "/": true, "%": true},
}

func (p *parser) binary(level int) (Expr, error) {
	if level >= len(binPrec) {
		return p.unary()
	}
	l, err := p.binary(level + 1)
	if err != nil {
		return nil, err
	}
	for p.peek().kind == "op" && binPrec[level][p.peek().s] {
		op := p.next().s
		r, err := p.binary(level + 1)
		if err != nil {
			return nil, err
		}
		l = &EBinary{op, l, r}
	}
	return l, nil
}

func (p *parser) unary() (Expr, error) {
	if p.isOp("!") || p.isOp("-") {
		op := p.next().s
		x, err := p.unary()
		if err != nil {
			return nil, err
		}
		return &EUnary{op, x}, nil
	}
	return p.postfix()
}

func (p *parser) postfix() (Expr, error) {
	x, err := p.primary()
	if err != nil {
		return nil, err
	}
	for {
		switch {
		case p.isOp("."):
			p.next()
			t := p.next()
			if t.kind != "id" {
				return nil, fmt.Errorf("expected field name after '.' in %q", p.src)
			}
			x = &ESel{x, t.s}
		case p.isOp("("):
			p.next()
			var args []Expr
			for !p.isOp(")") {
				a, err := p.iff()
				if err != nil {
					return nil, err
				}
				args = append(args, a)
				if p.isOp(",") {
					p.next()
				} else {
					break
				}
			}
			if err := p.expect(")"); err != nil {
				return nil, err
			}
			x = &ECall{x, args}
		case p.isOp("["):
			p.next()
			i, err := p.iff()
			if err != nil {
				return nil, err
			}
			if p.isOp(":=") {
				p.next()
				v, err := p.iff()
				if err != nil {
					return nil, err
				}
				if err := p.expect("]"); err != nil {
					return nil, err
				}
				x = &EStore{x, i, v}
			} else {
				if err := p.expect("]"); err != nil {
					return nil, err
				}
				x = &EIndex{x, i}
			}
		default:
			return x, nil
		}
	}
}

func (p *parser) sortName() (string, error) {
	if p.isOp("(") {
		// parenthesised SMT sort
		depth := 0
		var b strings.Builder
		for {
			t := p.next()
			if t.kind == "eof" {
				return "", fmt.Errorf("bad sort in %q", p.src)
			}
			if t.kind == "op" && t.s == "(" {
				depth++
				b.WriteString("(")
				continue
			}
			if t.kind == "op" && t.s == ")" {
				depth--
				b.WriteString(")")
				if depth == 0 {
					break
				}
				continue
			}
			if b.Len() > 0 && !strings.HasSuffix(b.String(), "(") {
				b.WriteString(" ")
			}
			b.WriteString(t.s)
		}
		return b.String(), nil
	}
	t := p.next()
	if t.kind != "id" {
		return "", fmt.Errorf("expected sort name in %q", p.src)
	}
	return t.s, nil
}

func (p *parser) primary() (Expr, error) {
	t := p.next()
	switch t.kind {
	case "int":
		v, _ := strconv.ParseInt(t.s, 10, 64)
		return &EInt{v}, nil
	case "str":
		return &EStr{t.s}, nil
	case "id":
		switch t.s {
		case "true":
			return &EBool{true}, nil
		case "false":
			return &EBool{false}, nil
		case "nil":
			return &ENil{}, nil
		case "old":
			if err := p.expect("("); err != nil {
				return nil, err
			}
			x, err := p.iff()
			if err != nil {
				return nil, err
			}
			if err := p.expect(")"); err != nil {
				return nil, err
			}
			return &EOld{x}, nil
		case "smt":
			if err := p.expect("("); err != nil {
				return nil, err
			}
			s, err := p.sortName()
			if err != nil {
				return nil, err
			}
			if err := p.expect(","); err != nil {
				return nil, err
			}
			st := p.next()
			if st.kind != "str" {
				return nil, fmt.Errorf("smt(sort, \"text\") expected in %q", p.src)
			}
			if err := p.expect(")"); err != nil {
				return nil, err
			}
			return &ERaw{s, st.s}, nil
		case "forall", "exists":
			q := &EQuant{Forall: t.s == "forall"}
			for {
				n := p.next()
				if n.kind != "id" {
					return nil, fmt.Errorf("quantifier variable expected in %q", p.src)
				}
				s, err := p.sortName()
				if err != nil {
					return nil, err
				}
				q.Vars = append(q.Vars, QVar{n.s, s})
				if p.isOp(",") {
					p.next()
					continue
				}
				break
			}
			if err := p.expect("::"); err != nil {
				return nil, err
			}
			for p.isOp("{") {
				p.next()
				var group []Expr
				for {
					tr, err := p.iff()
					if err != nil {
						return nil, err
					}
					group = append(group, tr)
					if p.isOp(",") {
						p.next()
						continue
					}
					break
				}
				if err := p.expect("}"); err != nil {
					return nil, err
				}
				q.Trig = append(q.Trig, group)
			}
			body, err := p.iff()
			if err != nil {
				return nil, err
			}
			q.Body = body
			return q, nil
		}
		return &EIdent{t.s}, nil
	case "op":
		if t.s == "(" {
			x, err := p.iff()
			if err != nil {
				return nil, err
			}
			if err := p.expect(")"); err != nil {
				return nil, err
			}
			return x, nil
		}
	}
	return nil, fmt.Errorf("unexpected %q in %q", t.s, p.src)
}

// ---------------------------------------------------------------------------
// Contract blocks

type Clause struct {
	post  bool // for "assume!" site clauses: applies after the call ("assume!post")
	Tags  []string
	Label string
	E     Expr
	Src   string
}

func (c *Clause) active(prop string) bool {
	for _, t := range c.Tags {
		if t == "base" || t == prop || t == "*" {
			return true
		}
	}
	return false
}

type GhostAssign struct {
	Tags []string
	Var  string
	E    Expr
	Src  string
}

type LetDef struct {
	Name string
	E    Expr
	Src  string
}

type LoopSpec struct {
	Inv  []Clause
	Dec  *Clause
	Mods []string
}

type SiteSpec struct {
	Site    string // "call <callee>#n", "entry", "return#n"
	Asserts []Clause
	Assumes []Clause
	Ghost   []GhostAssign
}

type Contract struct {
	Key      string
	Kind     string // func iface schema field
	Params   []string
	Results  []string
	Req, Ens []Clause
	Mods     []string
	Pure     bool
	Returns  *Clause  // "returns e": the (single) result is this expression over the current state (implies pure)
	PureDeps []string // ghost version variables a pure function depends on (default ASH, ASHP)
	Dec      *Clause
	Lets     []LetDef // "let NAME = e": e evaluated in the entry state, usable in every clause of the contract
	Loops    map[int]*LoopSpec
	Sites    map[string]*SiteSpec
	Trusted  bool
	Skip     []string // "skip C11 reason": not verified under that property (listed as unverified)
	External bool // declared in /verif/spec (assumed), not in /repo
	Inline   bool
	Unroll   bool
	Dispatch string // special handling name
	Satisfies string // for field contracts
	Origin   string
	Line     int
	re       *regexp.Regexp // for schema
}

type GhostDecl struct {
	Name, Sort string
}
type FunDecl struct {
	Name string
	Args []string
	Ret  string
	Def  string // optional SMT body using x0,x1...
}
type Axiom struct {
	Pkg   string // only when this package is loaded
	Label string
	Tags  []string
	E     Expr
	Src   string
}

type Specs struct {
	Ghosts    []GhostDecl
	Defines   []FunDecl // constants with definition
	Funs      map[string]*FunDecl
	FunOrder  []string
	Axioms    []Axiom
	Contracts map[string]*Contract // func and iface and field keys
	Schemas   []*Contract
	RawSMT    []string
	Macros    map[string][]string
	ElemInvs  []ElemInv
	SpecFuns  map[string]*SpecFun // "specfun name(a, b) = expr": macro expanded at use
	FreshInits []ElemInv // "freshinit <type>: <expr over x>": holds for a freshly allocated object x of that struct type
}

type SpecFun struct {
	Name   string
	Params []string
	Body   Expr
	Src    string
}

// ElemInv is a global invariant on the elements of every slice / array / map value whose element
// type is Type: checked at every store in the functions under contract, assumed at every load.
type ElemInv struct {
	Type string
	Tags []string
	E    Expr
	Src  string
}

func newSpecs() *Specs {
	return &Specs{Funs: map[string]*FunDecl{}, Contracts: map[string]*Contract{}, Macros: map[string][]string{}, SpecFuns: map[string]*SpecFun{}}
}

var tagRe = regexp.MustCompile(`^\[([A-Za-z0-9_,\* ]+)\]\s*`)
var labelRe = regexp.MustCompile(`^([A-Za-z_][A-Za-z0-9_\.]*):(?:[^:=]|$)`)

func splitTags(line string) ([]string, string) {
	m := tagRe.FindStringSubmatch(line)
	if m == nil {
		return []string{"base"}, line
	}
	var tags []string
	for _, t := range strings.Split(m[1], ",") {
		tags = append(tags, strings.TrimSpace(t))
	}
	return tags, line[len(m[0]):]
}

func parseClause(tags []string, rest string) (Clause, error) {
	rest = strings.TrimSpace(rest)
	label := ""
	if m := labelRe.FindStringSubmatch(rest); m != nil {
		label = m[1]
		rest = strings.TrimSpace(rest[len(m[1])+1:])
	}
	e, err := parseExpr(rest)
	if err != nil {
		return Clause{}, err
	}
	return Clause{Tags: tags, Label: label, E: e, Src: rest}, nil
}

func splitList(s string) []string {
	var out []string
	for _, x := range strings.Split(s, ",") {
		x = strings.TrimSpace(x)
		if x != "" {
			out = append(out, x)
		}
	}
	return out
}

// splitSorts splits a whitespace separated list of SMT sorts, respecting parens.
func splitSorts(s string) []string {
	var out []string
	depth := 0
	cur := ""
	for _, r := range s {
		switch {
		case r == '(':
			depth++
			cur += string(r)
		case r == ')':
			depth--
			cur += string(r)
		case (r == ' ' || r == '\t') && depth == 0:
			if cur != "" {
				out = append(out, cur)
				cur = ""
			}
		default:
			cur += string(r)
		}
	}
	if cur != "" {
		out = append(out, cur)
	}
	return out
}

func schemaRegexp(glob string) *regexp.Regexp {
	q := regexp.QuoteMeta(glob)
	q = strings.ReplaceAll(q, `\*`, `.*`)
	return regexp.MustCompile("^" + q + "$")
}

// loadSpecFile reads a spec file. If commentPrefix is non-empty only lines
// starting with it are considered (contract files in /repo).
func (sp *Specs) loadSpecFile(path, commentPrefix string, external bool) error {
	f, err := os.Open(path)
	if err != nil {
		return err
	}
	defer f.Close()
	sc := bufio.NewScanner(f)
	sc.Buffer(make([]byte, 1<<20), 1<<20)
	var cur *Contract
	lineNo := 0
	fail := func(err error) error { return fmt.Errorf("%s:%d: %v", path, lineNo, err) }
	for sc.Scan() {
		lineNo++
		line := strings.TrimSpace(sc.Text())
		if commentPrefix != "" {
			if !strings.HasPrefix(line, commentPrefix) {
				continue
			}
			line = strings.TrimSpace(line[len(commentPrefix):])
		}
		if line == "" || strings.HasPrefix(line, "#") {
			continue
		}
		if i := strings.Index(line, " ## "); i >= 0 {
			line = strings.TrimSpace(line[:i])
		}
		word, rest := line, ""
		if i := strings.IndexAny(line, " \t"); i >= 0 {
			word, rest = line[:i], strings.TrimSpace(line[i+1:])
		}
		switch word {
		case "ghost":
			parts := strings.SplitN(rest, " ", 2)
			if len(parts) != 2 {
				return fail(fmt.Errorf("ghost <name> <sort>"))
			}
			sp.Ghosts = append(sp.Ghosts, GhostDecl{parts[0], strings.TrimSpace(parts[1])})
			cur = nil
			continue
		case "define":
			// define name sort smt-body
			parts := splitSorts(rest)
			if len(parts) < 3 {
				return fail(fmt.Errorf("define <name> <sort> <smt>"))
			}
			sp.Defines = append(sp.Defines, FunDecl{Name: parts[0], Ret: parts[1], Def: strings.Join(parts[2:], " ")})
			cur = nil
			continue
		case "fun":
			// fun name (S1 S2) R [= smt body over x0 x1]
			def := ""
			if i := strings.Index(rest, " = "); i >= 0 {
				def = strings.TrimSpace(rest[i+3:])
				rest = strings.TrimSpace(rest[:i])
			}
			parts := splitSorts(rest)
			if len(parts) != 3 {
				return fail(fmt.Errorf("fun <name> (<sorts>) <sort>: %q", rest))
			}
			args := splitSorts(strings.TrimSuffix(strings.TrimPrefix(parts[1], "("), ")"))
			fd := &FunDecl{Name: parts[0], Args: args, Ret: parts[2], Def: def}
			if _, dup := sp.Funs[fd.Name]; !dup {
				sp.FunOrder = append(sp.FunOrder, fd.Name)
			}
			sp.Funs[fd.Name] = fd
			cur = nil
			continue
		case "elementinv":
			tags, r2 := splitTags(rest)
			i := strings.Index(r2, ": ")
			if i < 0 {
				return fail(fmt.Errorf("elementinv <type>: <expr over x>"))
			}
			e, err := parseExpr(strings.TrimSpace(r2[i+2:]))
			if err != nil {
				return fail(err)
			}
			sp.ElemInvs = append(sp.ElemInvs, ElemInv{Type: strings.TrimSpace(r2[:i]), Tags: tags, E: e, Src: strings.TrimSpace(r2[i+2:])})
			cur = nil
			continue
		case "specfun":
			// specfun name(p1, p2) = expr
			i := strings.Index(rest, "(")
			j := strings.Index(rest, ")")
			k := strings.Index(rest, " = ")
			if i < 0 || j < i || k < j {
				return fail(fmt.Errorf("specfun name(params) = expr"))
			}
			body, err := parseExpr(strings.TrimSpace(rest[k+3:]))
			if err != nil {
				return fail(err)
			}
			sf := &SpecFun{Name: strings.TrimSpace(rest[:i]), Params: splitList(rest[i+1 : j]), Body: body, Src: rest}
			sp.SpecFuns[sf.Name] = sf
			cur = nil
			continue
		case "freshinit":
			tags, r2 := splitTags(rest)
			i := strings.Index(r2, ": ")
			if i < 0 {
				return fail(fmt.Errorf("freshinit <type>: <expr over x>"))
			}
			e, err := parseExpr(strings.TrimSpace(r2[i+2:]))
			if err != nil {
				return fail(err)
			}
			sp.FreshInits = append(sp.FreshInits, ElemInv{Type: strings.TrimSpace(r2[:i]), Tags: tags, E: e, Src: strings.TrimSpace(r2[i+2:])})
			cur = nil
			continue
		case "macro":
			parts := strings.SplitN(rest, " ", 2)
			if len(parts) != 2 {
				return fail(fmt.Errorf("macro <name> a, b, c"))
			}
			sp.Macros[parts[0]] = splitList(parts[1])
			cur = nil
			continue
		case "rawsmt":
			sp.RawSMT = append(sp.RawSMT, rest)
			cur = nil
			continue
		case "axiom":
			needPkg := ""
			if strings.HasPrefix(rest, "if-package ") {
				parts := strings.SplitN(rest, " ", 3)
				needPkg, rest = parts[1], parts[2]
			}
			tags, r2 := splitTags(rest)
			cl, err := parseClause(tags, r2)
			if err != nil {
				return fail(err)
			}
			sp.Axioms = append(sp.Axioms, Axiom{Label: cl.Label, Tags: tags, E: cl.E, Src: cl.Src, Pkg: needPkg})
			cur = nil
			continue
		case "func", "iface", "schema", "field", "dyncall":
			cur = &Contract{Kind: word, Loops: map[int]*LoopSpec{}, Sites: map[string]*SiteSpec{}, Origin: path, Line: lineNo, External: external}
			key := rest
			if parts := strings.Split(rest, " satisfies "); len(parts) == 2 {
				key = strings.TrimSpace(parts[0])
				cur.Satisfies = strings.TrimSpace(parts[1])
			}
			if word == "field" {
				cur.Key = "field " + key
				sp.Contracts[cur.Key] = cur
				continue
			}
			// allow a trailing signature-ish comment after the key: "key(params...)" is not supported; key is whole rest
			cur.Key = key
			if word == "schema" {
				cur.re = schemaRegexp(key)
				sp.Schemas = append(sp.Schemas, cur)
			} else {
				k := key
				if word == "iface" {
					k = "iface " + key
				}
				if word == "dyncall" {
					k = "dyncall " + key
				}
				if old, dup := sp.Contracts[k]; dup && !(old.External && !external) { // a contract in the repository replaces an assumed one
					return fail(fmt.Errorf("duplicate contract for %s (first at %s:%d)", k, old.Origin, old.Line))
				}
				sp.Contracts[k] = cur
			}
			continue
		}
		if cur == nil {
			return fail(fmt.Errorf("clause outside block: %q", line))
		}
		// clause lines
		tags, r2 := splitTags(line)
		w2, rest2 := r2, ""
		if i := strings.IndexAny(r2, " \t"); i >= 0 {
			w2, rest2 = r2[:i], strings.TrimSpace(r2[i+1:])
		}
		switch w2 {
		case "requires", "ensures":
			cl, err := parseClause(tags, rest2)
			if err != nil {
				return fail(err)
			}
			if w2 == "requires" {
				cur.Req = append(cur.Req, splitConj(cl)...)
			} else {
				cur.Ens = append(cur.Ens, cl)
			}
		case "modifies":
			for _, m := range splitList(rest2) {
				if strings.HasPrefix(m, "$") {
					ex, ok := sp.Macros[m[1:]]
					if !ok {
						return fail(fmt.Errorf("unknown macro %s", m))
					}
					cur.Mods = append(cur.Mods, ex...)
				} else {
					cur.Mods = append(cur.Mods, m)
				}
			}
		case "let":
			parts := strings.SplitN(rest2, "=", 2)
			if len(parts) != 2 {
				return fail(fmt.Errorf("let NAME = expr"))
			}
			cl, err := parseClause(nil, strings.TrimSpace(parts[1]))
			if err != nil {
				return fail(err)
			}
			cur.Lets = append(cur.Lets, LetDef{Name: strings.TrimSpace(parts[0]), E: cl.E, Src: cl.Src})
		case "params":
			cur.Params = splitList(rest2)
		case "results":
			cur.Results = splitList(rest2)
		case "pure":
			cur.Pure = true
			if rest2 != "" {
				cur.PureDeps = strings.Fields(rest2)
			}
		case "returns":
			cl, err := parseClause(tags, rest2)
			if err != nil {
				return fail(err)
			}
			cur.Returns = &cl
		case "skip":
			cur.Skip = append(cur.Skip, rest2)
		case "trusted":
			cur.Trusted = true
		case "inline":
			cur.Inline = true
		case "unroll":
			cur.Unroll = true
		case "dispatch":
			cur.Dispatch = rest2
		case "decreases":
			cl, err := parseClause(tags, rest2)
			if err != nil {
				return fail(err)
			}
			cur.Dec = &cl
		case "loop":
			// loop N invariant|decreases|modifies ...
			parts := strings.SplitN(rest2, " ", 2)
			if len(parts) == 2 && strings.HasPrefix(strings.TrimSpace(parts[1]), "[") {
				var r3 string
				tags, r3 = splitTags(strings.TrimSpace(parts[1]))
				rest2 = parts[0] + " " + r3
			}
			parts = strings.SplitN(rest2, " ", 3)
			if len(parts) < 3 {
				return fail(fmt.Errorf("loop N invariant|decreases|modifies ..."))
			}
			n := 0 // "loop * ...": every loop of the function that has no clauses of its own
			if parts[0] != "*" {
				var err error
				n, err = strconv.Atoi(parts[0])
				if err != nil {
					return fail(err)
				}
			}
			ls := cur.Loops[n]
			if ls == nil {
				ls = &LoopSpec{}
				cur.Loops[n] = ls
			}
			switch parts[1] {
			case "invariant":
				cl, err := parseClause(tags, parts[2])
				if err != nil {
					return fail(err)
				}
				ls.Inv = append(ls.Inv, cl)
			case "decreases":
				cl, err := parseClause(tags, parts[2])
				if err != nil {
					return fail(err)
				}
				ls.Dec = &cl
			case "modifies":
				ls.Mods = append(ls.Mods, splitList(parts[2])...)
			default:
				return fail(fmt.Errorf("bad loop clause %q", parts[1]))
			}
		case "at":
			// at <site>: assert|assume!|ghost ...
			if strings.HasPrefix(rest2, "[") {
				tags, rest2 = splitTags(rest2)
			}
			i := strings.Index(rest2, ": ")
			if i < 0 {
				return fail(fmt.Errorf("at <site>: ..."))
			}
			site := strings.TrimSpace(rest2[:i])
			body := strings.TrimSpace(rest2[i+2:])
			ss := cur.Sites[site]
			if ss == nil {
				ss = &SiteSpec{Site: site}
				cur.Sites[site] = ss
			}
			bw, brest := body, ""
			if j := strings.IndexAny(body, " \t"); j >= 0 {
				bw, brest = body[:j], strings.TrimSpace(body[j+1:])
			}
			switch bw {
			case "assert":
				cl, err := parseClause(tags, brest)
				if err != nil {
					return fail(err)
				}
				ss.Asserts = append(ss.Asserts, cl)
			case "assume!", "assume!post":
				cl, err := parseClause(tags, brest)
				if err != nil {
					return fail(err)
				}
				cl.post = bw == "assume!post"
				ss.Assumes = append(ss.Assumes, cl)
			case "ghost":
				k := strings.Index(brest, " = ")
				if k < 0 {
					return fail(fmt.Errorf("ghost x = e"))
				}
				e, err := parseExpr(strings.TrimSpace(brest[k+3:]))
				if err != nil {
					return fail(err)
				}
				ss.Ghost = append(ss.Ghost, GhostAssign{Tags: tags, Var: strings.TrimSpace(brest[:k]), E: e, Src: brest})
			default:
				return fail(fmt.Errorf("bad site clause %q", bw))
			}
		default:
			return fail(fmt.Errorf("unknown clause %q", w2))
		}
	}
	return sc.Err()
}

func (sp *Specs) loadDir(dir string) error {
	files, _ := filepath.Glob(filepath.Join(dir, "*.spec"))
	for _, f := range files {
		if err := sp.loadSpecFile(f, "", true); err != nil {
			return err
		}
	}
	return nil
}

func (sp *Specs) schemaFor(key string) *Contract {
	for _, s := range sp.Schemas {
		if s.re.MatchString(key) {
			return s
		}
	}
	return nil
}

// splitConj splits a top-level conjunction into separate clauses (better diagnostics, smaller queries).
func splitConj(cl Clause) []Clause {
	b, ok := cl.E.(*EBinary)
	if !ok || b.Op != "&&" {
		return []Clause{cl}
	}
	var out []Clause
	var walk func(e Expr)
	n := 0
	walk = func(e Expr) {
		if bb, ok := e.(*EBinary); ok && bb.Op == "&&" {
			walk(bb.L)
			walk(bb.R)
			return
		}
		n++
		c := cl
		c.E = e
		c.Src = exprString(e)
		if cl.Label != "" {
			c.Label = cl.Label + "." + strconvI(n)
		} else {
			c.Label = ""
		}
		out = append(out, c)
	}
	walk(cl.E)
	return out
}

func strconvI(n int) string { return strconv.Itoa(n) }

func exprString(e Expr) string {
	switch n := e.(type) {
	case *EIdent:
		return n.Name
	case *EInt:
		return strconv.FormatInt(n.V, 10)
	case *EStr:
		return strconv.Quote(n.V)
	case *EBool:
		if n.V {
			return "true"
		}
		return "false"
	case *ENil:
		return "nil"
	case *EUnary:
		return n.Op + exprString(n.X)
	case *EBinary:
		return "(" + exprString(n.L) + " " + n.Op + " " + exprString(n.R) + ")"
	case *ECall:
		var as []string
		for _, a := range n.Args {
			as = append(as, exprString(a))
		}
		return exprString(n.Fun) + "(" + strings.Join(as, ", ") + ")"
	case *ESel:
		return exprString(n.X) + "." + n.Name
	case *EIndex:
		return exprString(n.X) + "[" + exprString(n.I) + "]"
	case *EStore:
		return exprString(n.X) + "[" + exprString(n.I) + " := " + exprString(n.V) + "]"
	case *EOld:
		return "old(" + exprString(n.X) + ")"
	case *EIte:
		return "(" + exprString(n.C) + " ? " + exprString(n.A) + " : " + exprString(n.B) + ")"
	case *EQuant:
		return "forall/exists ..."
	case *ERaw:
		return "smt(...)"
	}
	return "?"
}
