package main

import (
	"runtime"
	"hash/fnv"
	"bytes"
	"context"
	"fmt"
	"go/token"
	"go/types"
	"os"
	"os/exec"
	"path/filepath"
	"sort"
	"strings"
	"sync"
	"time"

	"golang.org/x/tools/go/packages"
	"golang.org/x/tools/go/ssa"
	"golang.org/x/tools/go/ssa/ssautil"
)

type Engine struct {
	prog    *ssa.Program
	fset    *token.FileSet
	pkgs    []*ssa.Package
	specs   *Specs
	fnByKey map[string]*ssa.Function
	mu      sync.Mutex
	heapSorts map[string]string
	fnIDs   map[string]int
	timeoutS int
	thorough bool
	dumpDir string
	pkgOnce    sync.Once
	pkgPathIdx map[string]*ssa.Package
	typeCache  sync.Map
	noBatch   bool // -nobatch: every function gets its own solver process
	batchOnce sync.Once
	batchCh   chan batchReq
	noGroup bool // -nogroup: check every postcondition clause on its own in the first pass
	noSlice bool // -noslice: send the whole function VC with every obligation
	loadS   float64
	pureDepsOf map[string][]string
}

func (e *Engine) fnID(k string) int {
	e.mu.Lock()
	defer e.mu.Unlock()
	if n, ok := e.fnIDs[k]; ok {
		return n
	}
	n := len(e.fnIDs) + 1
	e.fnIDs[k] = n
	return n
}

func loadEngine(dir string, patterns []string, tags string) (*Engine, error) {
	t0 := time.Now()
	cfg := &packages.Config{Mode: packages.LoadAllSyntax, Dir: dir}
	if tags != "" {
		cfg.BuildFlags = []string{"-tags=" + tags}
	}
	pkgs, err := packages.Load(cfg, patterns...)
	if err != nil {
		return nil, err
	}
	if n := packages.PrintErrors(pkgs); n > 0 {
		return nil, fmt.Errorf("%d package errors", n)
	}
	prog, spkgs := ssautil.AllPackages(pkgs, ssa.NaiveForm|ssa.GlobalDebug)
	prog.Build()
	e := &Engine{prog: prog, fset: prog.Fset, fnByKey: map[string]*ssa.Function{}, heapSorts: map[string]string{}, fnIDs: map[string]int{}}
	for _, p := range spkgs {
		if p != nil {
			e.pkgs = append(e.pkgs, p)
		}
	}
	for fn := range ssautil.AllFunctions(prog) {
		if fn.Pkg == nil && fn.Parent() == nil {
			// synthetic wrappers/bound thunks: keep those with a name
		}
		e.fnByKey[fnKey(fn)] = fn
	}
	// closures of all functions (AllFunctions includes anonymous functions reachable)
	var addAnon func(f *ssa.Function)
	addAnon = func(f *ssa.Function) {
		for _, a := range f.AnonFuncs {
			e.fnByKey[fnKey(a)] = a
			addAnon(a)
		}
	}
	for _, p := range prog.AllPackages() {
		for _, m := range p.Members {
			if f, ok := m.(*ssa.Function); ok {
				e.fnByKey[fnKey(f)] = f
				addAnon(f)
			}
			if t, ok := m.(*ssa.Type); ok {
				for _, tt := range []types.Type{t.Type(), types.NewPointer(t.Type())} {
					ms := prog.MethodSets.MethodSet(tt)
					for i := 0; i < ms.Len(); i++ {
						if f := prog.MethodValue(ms.At(i)); f != nil {
							e.fnByKey[fnKey(f)] = f
							addAnon(f)
						}
					}
				}
			}
		}
	}
	e.loadS = time.Since(t0).Seconds()
	return e, nil
}

func (e *Engine) pkgByName(name string) *ssa.Package {
	for _, p := range e.prog.AllPackages() {
		if p.Pkg.Name() == name {
			// prefer repo packages
			if strings.HasPrefix(p.Pkg.Path(), modPrefix) {
				return p
			}
		}
	}
	for _, p := range e.prog.AllPackages() {
		if p.Pkg.Name() == name {
			return p
		}
	}
	return nil
}

func (e *Engine) pkgByPath(path string) *ssa.Package {
	e.pkgOnce.Do(func() {
		e.pkgPathIdx = map[string]*ssa.Package{}
		for _, p := range e.prog.AllPackages() {
			e.pkgPathIdx[p.Pkg.Path()] = p
		}
	})
	if p, ok := e.pkgPathIdx[path]; ok {
		return p
	}
	return e.pkgPathIdx[modPrefix+path]
}

// typeByName resolves "pkg.T", "*pkg.T", "path/to/pkg.T".
func (e *Engine) typeByName(s string) types.Type {
	if v, ok := e.typeCache.Load(s); ok {
		if v == nil {
			return nil
		}
		return v.(types.Type)
	}
	t := e.typeByName0(s)
	if t == nil {
		e.typeCache.Store(s, nil)
	} else {
		e.typeCache.Store(s, t)
	}
	return t
}

func (e *Engine) typeByName0(s string) types.Type {
	ptr := false
	if strings.HasPrefix(s, "*") {
		ptr = true
		s = s[1:]
	}
	if s == "interface{}" {
		return types.NewInterfaceType(nil, nil)
	}
	if strings.HasPrefix(s, "map[") && !ptr { // map[K]V
		depth := 0
		for k := 3; k < len(s); k++ {
			if s[k] == '[' {
				depth++
			} else if s[k] == ']' {
				depth--
				if depth == 0 {
					kt, vt := e.typeByName(s[4:k]), e.typeByName(s[k+1:])
					if kt == nil || vt == nil {
						return nil
					}
					return types.NewMap(kt, vt)
				}
			}
		}
		return nil
	}
	if strings.HasPrefix(s, "[]") && !ptr {
		et := e.typeByName(s[2:])
		if et == nil {
			return nil
		}
		return types.NewSlice(et)
	}
	i := strings.LastIndex(s, ".")
	if i < 0 {
		// predeclared types: string, int, error, ...
		if obj := types.Universe.Lookup(s); obj != nil {
			if tn, ok := obj.(*types.TypeName); ok {
				if ptr {
					return types.NewPointer(tn.Type())
				}
				return tn.Type()
			}
		}
		return nil
	}
	pn, tn := s[:i], s[i+1:]
	var p *ssa.Package
	if strings.Contains(pn, "/") {
		p = e.pkgByPath(pn)
	} else {
		p = e.pkgByName(pn)
	}
	if p == nil {
		return nil
	}
	obj := p.Pkg.Scope().Lookup(tn)
	if obj == nil {
		return nil
	}
	t := obj.Type()
	if ptr {
		return types.NewPointer(t)
	}
	return t
}

func (e *Engine) boundTarget(f *ssa.Function) *ssa.Function {
	// "(*T).M$bound" -> "(*T).M"
	k := strings.TrimSuffix(fnKey(f), "$bound")
	return e.fnByKey[k]
}

func (e *Engine) needFun(vc *FuncVC, name string, args []string, ret string) {
	if vc.funDecls == nil {
		vc.funDecls = map[string]string{}
	}
	if _, ok := vc.funDecls[name]; ok {
		return
	}
	vc.funDecls[name] = fmt.Sprintf("(declare-fun %s (%s) %s)", name, strings.Join(args, " "), ret)
	vc.funOrder = append(vc.funOrder, name)
}

// notePure remembers which version ghosts a pure method depends on, so that specifications can
// apply the same function (x.M() in a contract).
func (e *Engine) notePure(method string, c *Contract) {
	e.mu.Lock()
	defer e.mu.Unlock()
	if e.pureDepsOf == nil {
		e.pureDepsOf = map[string][]string{}
	}
	e.pureDepsOf[method] = pureDeps(c)
}

func (e *Engine) needBox(vc *FuncVC, sort string) {
	id := smtIdent(sort)
	e.needFun(vc, "box!"+id, []string{sort}, "Int")
	e.needFun(vc, "unbox!"+id, []string{"Int"}, sort)
}

func (e *Engine) noteIfaceTag(vc *FuncVC, tag int, t types.Type) {
	if vc.ifaceTags == nil {
		vc.ifaceTags = map[int]types.Type{}
	}
	vc.ifaceTags[tag] = t
}

func (e *Engine) globalFacts(vc *FuncVC, key string, t Term) {}

// axioms asserts the active global axioms of the specification prelude.
func (vc *FuncVC) axioms(s *State) {
	e := vc.newEnv(s, s, token.NoPos)
	e.noLocals = true
	for _, ax := range vc.eng.specs.Axioms {
		act := false
		for _, t := range ax.Tags {
			if t == "base" || t == vc.prop {
				act = true
			}
		}
		if !act {
			continue
		}
		if ax.Pkg != "" && vc.eng.pkgByName(ax.Pkg) == nil {
			continue
		}
		f := vc.tr(e, ax.E)
		vc.emit("(assert %s) ; axiom %s", f.S, ax.Label)
		vc.assumedUsed["axiom "+ax.Label+": "+ax.Src] = true
	}
}

const prelude = `(set-option :produce-models true)
(set-logic ALL)
(declare-datatypes ((Iface 0)) (((mkI (i!dyn Int) (i!pl Int)))))
(define-fun nilI () Iface (mkI 0 0))
(declare-datatypes ((Slice 0)) (((mkS (s!arr Int) (s!off Int) (s!len Int) (s!cap Int)))))
(define-fun nilS () Slice (mkS 0 0 0 0))
(declare-fun implements (Int Int) Bool)
(declare-fun fnid (Int) Int)
%IX%
(define-fun godiv ((a Int) (b Int)) Int (ite (>= a 0) (ite (> b 0) (div a b) (- (div a (- b)))) (ite (> b 0) (- (div (- a) b)) (div (- a) (- b)))))
(define-fun gomod ((a Int) (b Int)) Int (- a (* b (godiv a b))))
`

func (vc *FuncVC) header() string {
	var b strings.Builder
	ixDecl := ""
	for _, it := range vc.items { // the index function (and its defining axiom) only where slices are indexed
		if (it.ob == nil && strings.Contains(it.line, "(ix ")) || (it.ob != nil && (strings.Contains(it.ob.f.S, "(ix ") || strings.Contains(it.ob.pc.S, "(ix "))) {
			ixDecl = "(declare-fun ix (Int Int) Int)\n(assert (forall ((a!q Int) (b!q Int)) (! (= (ix a!q b!q) (+ a!q b!q)) :pattern ((ix a!q b!q)))))"
			break
		}
	}
	b.WriteString(strings.Replace(prelude, "%IX%", ixDecl, 1))
	b.WriteString(vc.ss.declStructs())
	sp := vc.eng.specs
	known := func(srt string) bool {
		for _, w := range strings.FieldsFunc(srt, func(r rune) bool { return r == '(' || r == ')' || r == ' ' }) {
			switch w {
			case "Array", "Int", "Bool", "String", "Real", "Iface", "Slice":
				continue
			}
			if _, ok := vc.ss.structs[w]; !ok {
				return false
			}
		}
		return true
	}
	for _, n := range sp.FunOrder {
		fd := sp.Funs[n]
		ok := known(fd.Ret)
		for _, a := range fd.Args {
			ok = ok && known(a)
		}
		if !ok {
			continue // mentions a struct sort this script does not declare: cannot be used here
		}
		if fd.Def != "" {
			var ps []string
			for i, a := range fd.Args {
				ps = append(ps, fmt.Sprintf("(x%d %s)", i, a))
			}
			fmt.Fprintf(&b, "(define-fun %s (%s) %s %s)\n", fd.Name, strings.Join(ps, " "), fd.Ret, fd.Def)
		} else {
			fmt.Fprintf(&b, "(declare-fun %s (%s) %s)\n", fd.Name, strings.Join(fd.Args, " "), fd.Ret)
		}
	}
	for _, d := range sp.Defines {
		fmt.Fprintf(&b, "(define-fun %s () %s %s)\n", d.Name, d.Ret, d.Def)
	}
	for _, n := range vc.funOrder {
		b.WriteString(vc.funDecls[n])
		b.WriteString("\n")
	}
	for _, n := range vc.declOrder {
		fmt.Fprintf(&b, "(declare-const %s %s)\n", n, vc.declared[n])
	}
	for _, r := range sp.RawSMT {
		b.WriteString(r)
		b.WriteString("\n")
	}
	// implements facts for the type tags that occur
	var itags []int
	for t := range vc.ifaceTags {
		itags = append(itags, t)
	}
	sort.Ints(itags)
	for _, it := range itags {
		iface, ok := vc.ifaceTags[it].Underlying().(*types.Interface)
		if !ok {
			continue
		}
		for i, ct := range vc.ss.tagTypes {
			ctag := i + 1
			if _, isI := ct.Underlying().(*types.Interface); isI {
				continue
			}
			if types.Implements(ct, iface) {
				fmt.Fprintf(&b, "(assert (implements %d %d))\n", ctag, it)
			} else {
				fmt.Fprintf(&b, "(assert (not (implements %d %d)))\n", ctag, it)
			}
		}
		// interface inclusion: implementing a larger interface implies implementing a smaller one
		for _, jt := range itags {
			if jt == it {
				continue
			}
			if j, ok := vc.ifaceTags[jt].Underlying().(*types.Interface); ok && types.Implements(vc.ifaceTags[jt], iface) && j.NumMethods() > 0 {
				fmt.Fprintf(&b, "(assert (forall ((d!q Int)) (! (=> (implements d!q %d) (implements d!q %d)) :pattern ((implements d!q %d)))))\n", jt, it, jt)
			}
		}
	}
	return b.String()
}

// script builds the incremental script; upTo < 0 means all obligations.
func (vc *FuncVC) script(only *Obligation, withModel bool) string {
	return vc.scriptShard(only, withModel, 0, 1)
}

// scriptShard: like script, but check-sat is issued only for obligations whose index is congruent
// to shard modulo nshards (all obligations are still assumed after their position).
func (vc *FuncVC) scriptShard(only *Obligation, withModel bool, shard, nshards int) string {
	var b strings.Builder
	b.WriteString(vc.header())
	n := len(vc.obls)
	inShard := func(ob *Obligation) bool { // contiguous chunks: neighbouring obligations arise in neighbouring blocks
		return ob.idx*nshards/n == shard
	}
	// slice: lines and assumed obligations emitted in a block that cannot reach any block in which a
	// checked obligation arises say nothing about the paths to it; leaving them out only removes assumptions
	var targets []*ssa.BasicBlock
	all := false
	for _, ob := range vc.obls {
		if (only == nil && inShard(ob)) || only == ob {
			if ob.blk == nil {
				all = true
			} else {
				targets = append(targets, ob.blk)
			}
		}
	}
	relevant := func(blk *ssa.BasicBlock) bool {
		if all || blk == nil || vc.eng.noSlice {
			return true
		}
		for _, t := range targets {
			if vc.canReach(blk, t) {
				return true
			}
		}
		return false
	}
	relCache := map[*ssa.BasicBlock]bool{}
	rel := func(blk *ssa.BasicBlock) bool {
		if v, ok := relCache[blk]; ok {
			return v
		}
		v := relevant(blk)
		relCache[blk] = v
		return v
	}
	// postconditions at one return (same path condition) are checked jointly first: one query for the
	// conjunction; only if that is not "unsat" are the clauses checked one by one (second pass) to name the failing one
	groups := map[int][]int{}
	items := vc.items
	for i := 0; i < len(items); i++ {
		it := items[i]
		if it.ob == nil {
			if rel(it.blk) {
				b.WriteString(it.line)
				b.WriteString("\n")
			}
			continue
		}
		ob := it.ob
		if only == nil && !vc.eng.noGroup && (ob.Kind == "post" || ob.Kind == "frame") && ob.Expect == "unsat" && ob.Verdict != "no-contract" {
			// collect the group; lines in between are definitions of named terms: emitted first
			var members []*Obligation
			j := i
			for ; j < len(items); j++ {
				if items[j].ob == nil {
					continue
				}
				o2 := items[j].ob
				if (o2.Kind != "post" && o2.Kind != "frame") || o2.Expect != "unsat" || o2.pc.S != ob.pc.S {
					break
				}
				members = append(members, o2)
			}
			// j: first item that is an obligation outside the group; trailing line items stay for the main loop
			last := i
			for k := i; k < j; k++ {
				if items[k].ob != nil {
					last = k
				}
			}
			for k := i; k <= last; k++ {
				if items[k].ob == nil && rel(items[k].blk) {
					b.WriteString(items[k].line)
					b.WriteString("\n")
				}
			}
			if inShard(ob) {
				fmt.Fprintf(&b, "(echo \"@OB %d\")\n(push 1)\n(assert %s)\n(assert (not (and", ob.idx, ob.pc.S)
				for _, m := range members {
					b.WriteString(" ")
					b.WriteString(m.f.S)
				}
				if len(members) == 1 {
					b.WriteString(" true")
				}
				b.WriteString(")))\n(check-sat)\n(pop 1)\n")
				var ids []int
				for _, m := range members {
					ids = append(ids, m.idx)
				}
				groups[ob.idx] = ids
			}
			i = last
			continue
		}
		if ob.skipCheck && only == nil {
			continue
		}
		if (only == nil && inShard(ob)) || only == ob {
			fmt.Fprintf(&b, "(echo \"@OB %d\")\n(push 1)\n(assert %s)\n", ob.idx, ob.pc.S)
			if ob.Expect == "unsat" {
				fmt.Fprintf(&b, "(assert (not %s))\n", ob.f.S)
			}
			b.WriteString("(check-sat)\n")
			if withModel && only == ob {
				b.WriteString("(get-model)\n")
				for wi, w := range ob.watch {
					if w.S != "0" {
						fmt.Fprintf(&b, "(echo \"@VAL %d\")\n(get-value (%s))\n", wi, w.S)
					}
				}
			}
			b.WriteString("(pop 1)\n")
		}
		if only == ob {
			break
		}
		// (postconditions at returns and invariants at back edges end their path: nothing after them can use them)
		if ob.Expect == "unsat" && ob.Kind != "nocontract" && ob.Kind != "post" && ob.Kind != "frame" && ob.Kind != "inv.keep" && ob.Kind != "inv.init" && rel(ob.blk) {
			fmt.Fprintf(&b, "(assert %s)\n", imp(ob.pc, ob.f).S)
		}
	}
	if only == nil {
		vc.groupMu.Lock()
		if vc.groups == nil {
			vc.groups = map[int][]int{}
		}
		for k, v := range groups {
			vc.groups[k] = v
		}
		vc.groupMu.Unlock()
	}
	return b.String()
}

// canReach: is there a path from block a to block b in the control-flow graph of the function under verification
func (vc *FuncVC) canReach(a, b *ssa.BasicBlock) bool {
	if a == b {
		return true
	}
	if a.Parent() != b.Parent() {
		return true
	}
	vc.reachMu.Lock()
	defer vc.reachMu.Unlock()
	if vc.reachTo == nil {
		vc.reachTo = map[*ssa.BasicBlock]map[*ssa.BasicBlock]bool{}
	}
	m, ok := vc.reachTo[b]
	if !ok {
		m = map[*ssa.BasicBlock]bool{b: true}
		stack := []*ssa.BasicBlock{b}
		for len(stack) > 0 {
			x := stack[len(stack)-1]
			stack = stack[:len(stack)-1]
			for _, p := range x.Preds {
				if !m[p] {
					m[p] = true
					stack = append(stack, p)
				}
			}
		}
		vc.reachTo[b] = m
	}
	return m[a]
}

type solver struct {
	name string
	cmd  func(file string, timeoutS int) []string
}

var solvers = []solver{
	{"z3-new", func(f string, t int) []string { return []string{"z3-new", fmt.Sprintf("-t:%d", t*1000), f} }},
	{"z3", func(f string, t int) []string { return []string{"z3", fmt.Sprintf("-t:%d", t*1000), f} }},
	{"cvc5", func(f string, t int) []string {
		return []string{"cvc5", "--incremental", fmt.Sprintf("--tlimit-per=%d", t*1000), f}
	}},
}

// solverSlots bounds the number of solver processes running at once: more processes than cores make every one of
// them slower, per-obligation time limits then fire for no semantic reason and the obligations are re-run one by one
// on three solvers, which makes the overload worse (seen with the largest generated functions).
var solverSlots = make(chan struct{}, runtime.NumCPU()+runtime.NumCPU()/2)

func runSolver(sv solver, script string, timeoutS int, total time.Duration, tmpdir string, tag string) (string, float64) {
	f := filepath.Join(tmpdir, tag+"."+sv.name+".smt2")
	os.WriteFile(f, []byte(script), 0644)
	defer os.Remove(f)
	args := sv.cmd(f, timeoutS)
	solverSlots <- struct{}{}
	defer func() { <-solverSlots }()
	ctx, cancel := context.WithTimeout(context.Background(), total)
	defer cancel()
	cmd := exec.CommandContext(ctx, args[0], args[1:]...)
	var out bytes.Buffer
	cmd.Stdout = &out
	cmd.Stderr = &out
	t0 := time.Now()
	cmd.Run()
	return out.String(), time.Since(t0).Seconds()
}

// parseResults maps obligation idx -> first answer line after its echo marker.
func parseResults(out string) map[int]string {
	res := map[int]string{}
	cur := -1
	for _, ln := range strings.Split(out, "\n") {
		ln = strings.TrimSpace(ln)
		if strings.HasPrefix(ln, "@OB ") || strings.HasPrefix(ln, "\"@OB ") {
			ln = strings.Trim(ln, "\"")
			fmt.Sscanf(ln, "@OB %d", &cur)
			continue
		}
		if cur >= 0 {
			switch {
			case ln == "sat" || ln == "unsat" || ln == "unknown":
				if _, ok := res[cur]; !ok {
					res[cur] = ln
				}
			case strings.HasPrefix(ln, "(error"):
				if _, ok := res[cur]; !ok {
					res[cur] = "error: " + ln
				}
			}
		}
	}
	return res
}

// solveBatched: small functions (few obligations) share one solver process for their first pass: each
// function's script is run between (push 1) and (pop 1). Obligations not decided as expected there go
// through the usual second pass (alone, on every solver).
type batchReq struct {
	vc   *FuncVC
	done chan struct{}
}

func (e *Engine) solveBatched(vc *FuncVC, tmpdir string) {
	if e.thorough || e.dumpDir != "" || e.noBatch || len(vc.obls) == 0 || len(vc.obls) > 12 {
		vc.solve(tmpdir)
		return
	}
	e.batchOnce.Do(func() {
		e.batchCh = make(chan batchReq, 256)
		go e.batcher(tmpdir)
	})
	req := batchReq{vc, make(chan struct{})}
	e.batchCh <- req
	<-req.done
	vc.solve(tmpdir)
}

func (e *Engine) batcher(tmpdir string) {
	sem := make(chan struct{}, 16)
	n := 0
	for {
		first := <-e.batchCh
		batch := []batchReq{first}
		timer := time.After(40 * time.Millisecond)
	collect:
		for len(batch) < 40 {
			select {
			case r := <-e.batchCh:
				batch = append(batch, r)
			case <-timer:
				break collect
			}
		}
		n++
		id := n
		sem <- struct{}{}
		go func(batch []batchReq) {
			defer func() { <-sem }()
			e.runBatch(batch, tmpdir, id)
		}(batch)
	}
}

func (e *Engine) runBatch(batch []batchReq, tmpdir string, id int) {
	defer func() {
		for _, r := range batch {
			close(r.done)
		}
	}()
	var b strings.Builder
	b.WriteString("(set-option :produce-models true)\n(set-logic ALL)\n")
	nob := 0
	for k, r := range batch {
		vc := r.vc
		vc.prepareSolve()
		sc := vc.script(nil, false)
		vc.fullScript = sc
		sc = strings.Replace(sc, "(set-option :produce-models true)\n", "", 1)
		sc = strings.Replace(sc, "(set-logic ALL)\n", "", 1)
		fmt.Fprintf(&b, "(echo \"@VC %d\")\n(push 1)\n%s(pop 1)\n", k, sc)
		nob += len(vc.obls)
	}
	tmo := e.timeoutS
	out, secs := runSolver(solvers[0], b.String(), tmo, time.Duration(tmo*nob+20)*time.Second, tmpdir, fmt.Sprintf("batch%d", id))
	// split the output per function
	parts := map[int][]string{}
	cur := -1
	for _, ln := range strings.Split(out, "\n") {
		t := strings.Trim(strings.TrimSpace(ln), "\"")
		if strings.HasPrefix(t, "@VC ") {
			fmt.Sscanf(t, "@VC %d", &cur)
			continue
		}
		if cur >= 0 {
			parts[cur] = append(parts[cur], ln)
		}
	}
	for k, r := range batch {
		o := strings.Join(parts[k], "\n")
		r.vc.preRes = parseResults(o)
		r.vc.preOut = o
		r.vc.preSecs = secs * float64(len(r.vc.obls)) / float64(nob+1)
	}
}

// prepareSolve numbers the obligations and samples the reachability checks (quick tier).
func (vc *FuncVC) prepareSolve() {
	if vc.prepared {
		return
	}
	vc.prepared = true
	for i, ob := range vc.obls {
		ob.idx = i
		ob.PerSolver = map[string]string{}
	}
}

func (vc *FuncVC) solve(tmpdir string) {
	vc.prepareSolve()
	if len(vc.obls) == 0 {
		return
	}
	tag := smtIdent(vc.prop + "_" + vc.key)
	if len(tag) > 100 { // keep file names short but unique (two long keys may share a 100-character prefix)
		h := fnv.New32a()
		h.Write([]byte(tag))
		tag = fmt.Sprintf("%s_%08x", tag[:100], h.Sum32())
	}
	// reachability of returns is evidence against vacuity, not a proof obligation; "sat" answers in the
	// presence of quantifiers are the slowest queries, so the quick tier samples them (thorough: all)
	if !vc.eng.thorough {
		var covers []*Obligation
		for _, ob := range vc.obls {
			if ob.Kind == "cover.info" {
				covers = append(covers, ob)
			}
		}
		const maxCovers = 12
		if len(covers) > maxCovers {
			keep := map[int]bool{}
			for k := 0; k < maxCovers; k++ {
				keep[k*(len(covers)-1)/(maxCovers-1)] = true
			}
			for i, ob := range covers {
				if !keep[i] {
					ob.skipCheck = true
				}
			}
		}
	}
	full := vc.fullScript
	if full == "" {
		full = vc.script(nil, false)
	}
	if vc.eng.dumpDir != "" {
		os.WriteFile(filepath.Join(vc.eng.dumpDir, tag+".smt2"), []byte(full), 0644)
	}
	tmo := vc.eng.timeoutS
	// first pass: z3-new on the whole incremental script (sharded over several processes when the
	// function has many obligations: each shard asserts everything but checks only its share)
	nsh := len(vc.obls) / 6
	if nsh > 12 {
		nsh = 12
	}
	if nsh < 1 {
		nsh = 1
	}
	res := map[int]string{}
	var out string
	var secs float64
	if vc.preRes != nil {
		// first pass already done in a batch with other small functions (see solveBatched)
		res, out, secs = vc.preRes, vc.preOut, vc.preSecs
	} else if nsh == 1 {
		out, secs = runSolver(solvers[0], full, tmo, time.Duration(tmo*len(vc.obls)+10)*time.Second, tmpdir, tag)
		res = parseResults(out)
	} else {
		var wgs sync.WaitGroup
		var mus sync.Mutex
		t0 := time.Now()
		for sh := 0; sh < nsh; sh++ {
			sh := sh
			wgs.Add(1)
			go func() {
				defer wgs.Done()
				sc := vc.scriptShard(nil, false, sh, nsh)
				if vc.eng.dumpDir != "" {
					os.WriteFile(filepath.Join(vc.eng.dumpDir, fmt.Sprintf("%s_shard%d.smt2", tag, sh)), []byte(sc), 0644)
				}
				o, _ := runSolver(solvers[0], sc, tmo, time.Duration(tmo*(len(vc.obls)/nsh+1)+10)*time.Second, tmpdir, fmt.Sprintf("%s_sh%d", tag, sh))
				r := parseResults(o)
				mus.Lock()
				for k, v := range r {
					res[k] = v
				}
				out += o
				mus.Unlock()
			}()
		}
		wgs.Wait()
		secs = time.Since(t0).Seconds()
	}
	// a group answered "unsat" discharges all its members; any other answer leaves them all for the second pass
	for leader, ids := range vc.groups {
		r, ok := res[leader]
		delete(res, leader)
		if ok && r == "unsat" {
			for _, id := range ids {
				res[id] = "unsat"
			}
		}
	}
	per := secs / float64(len(vc.obls))
	var pending []*Obligation
	for _, ob := range vc.obls {
		r, ok := res[ob.idx]
		if !ok {
			r = "no-answer"
			if strings.Contains(out, "(error") && len(res) == 0 {
				r = "error: " + firstError(out)
			}
		}
		ob.PerSolver["z3-new"] = r
		ob.TimeS = per
		if ob.Verdict == "no-contract" {
			continue
		}
		if ob.Kind == "cover.info" {
			if ob.skipCheck {
				ob.Verdict = "reachability-not-checked"
				ob.TimeS = 0
				continue
			}
			if r == "sat" {
				ob.Verdict = "reachable"
			} else if r == "unsat" {
				ob.Verdict = "unreachable"
			} else {
				ob.Verdict = "reachability-unknown"
			}
			continue
		}
		if r == ob.Expect && !vc.eng.thorough {
			ob.Verdict = "discharged"
			ob.By = "z3-new"
		} else {
			pending = append(pending, ob)
		}
	}
	// second pass: each undecided obligation alone, on every solver
	var wg sync.WaitGroup
	sem := make(chan struct{}, 4)
	for _, ob := range pending {
		ob := ob
		wg.Add(1)
		go func() {
			defer wg.Done()
			sem <- struct{}{}
			defer func() { <-sem }()
			sc := vc.script(ob, true)
			otag := fmt.Sprintf("%s_ob%d", tag, ob.idx)
			type ans struct {
				name, r, out string
				secs       float64
			}
			ch := make(chan ans, len(solvers))
			for _, sv := range solvers {
				sv := sv
				go func() {
					o, sc2 := runSolver(sv, sc, tmo, time.Duration(tmo+5)*time.Second, tmpdir, otag)
					r := parseResults(o)[ob.idx]
					if r == "" {
						r = "timeout"
						if strings.Contains(o, "(error") {
							r = "error: " + firstError(o)
						}
					}
					ch <- ans{sv.name, r, o, sc2}
				}()
			}
			var satOut string
			for range solvers {
				a := <-ch
				ob.PerSolver[a.name+"(alone)"] = a.r
				ob.TimeS += a.secs
				if a.r == ob.Expect && ob.Verdict != "discharged" {
					ob.Verdict = "discharged"
					ob.By = a.name
				}
				if a.r == "sat" && ob.Expect == "unsat" && satOut == "" {
					satOut = a.out
				}
			}
			if ob.Verdict == "discharged" {
				if ob.Expect == "unsat" && satOut != "" {
					ob.Verdict = "disagreement"
					ob.Raw = "one solver answered unsat, another sat"
				}
				return
			}
			if ob.Expect == "unsat" {
				if satOut != "" {
					ob.Verdict = "failed"
					ob.Model = vc.extractModel(satOut)
					ob.Values = watchValues(ob, satOut)
				} else {
					ob.Verdict = "undecided"
				}
			} else {
				ob.Verdict = "failed" // cover not reachable (or undecided)
				for _, v := range ob.PerSolver {
					if v == "unknown" || v == "timeout" {
						ob.Verdict = "undecided"
					}
				}
				for _, v := range ob.PerSolver {
					if v == "unsat" {
						ob.Verdict = "failed"
					}
				}
			}
			if vc.eng.dumpDir != "" {
				os.WriteFile(filepath.Join(vc.eng.dumpDir, otag+".smt2"), []byte(sc), 0644)
			}
		}()
	}
	wg.Wait()
}

func firstError(out string) string {
	for _, ln := range strings.Split(out, "\n") {
		if strings.Contains(ln, "(error") {
			if len(ln) > 300 {
				ln = ln[:300]
			}
			return ln
		}
	}
	return ""
}

// extractModel keeps the model lines about program-level names (params, call results, ghost state).
func (vc *FuncVC) extractModel(out string) string {
	i := strings.Index(out, "sat\n")
	if i < 0 {
		return ""
	}
	m := out[i+4:]
	// z3 prints (define-fun name () Sort value) possibly across lines; collapse
	m = strings.ReplaceAll(m, "\n    ", " ")
	var keep []string
	for _, ln := range strings.Split(m, "\n") {
		ln = strings.TrimSpace(ln)
		if !strings.HasPrefix(ln, "(define-fun ") {
			continue
		}
		name := strings.Fields(ln[len("(define-fun "):])[0]
		if strings.HasPrefix(name, "p!") || strings.HasPrefix(name, "r_") || strings.HasPrefix(name, "pc_") ||
			strings.HasPrefix(name, "s0!G") || strings.HasPrefix(name, "hv_") || strings.HasPrefix(name, "fv!") {
			if len(ln) > 400 {
				ln = ln[:400] + "...)"
			}
			keep = append(keep, ln)
		}
	}
	if len(keep) > 120 {
		keep = keep[:120]
	}
	return strings.Join(keep, "\n")
}


// watchValues reads the answers to the get-value queries of a counterexample.
func watchValues(ob *Obligation, out string) map[string]string {
	if len(ob.watch) == 0 {
		return nil
	}
	vals := map[string]string{}
	for _, w := range ob.watch {
		if w.S == "0" {
			vals[w.Label] = ""
		}
	}
	parts := strings.Split(out, "@VAL ")
	for _, p := range parts[1:] {
		nl := strings.Index(p, "\n")
		if nl < 0 {
			continue
		}
		var wi int
		if _, err := fmt.Sscanf(strings.Trim(p[:nl], "\" \r"), "%d", &wi); err != nil || wi < 0 || wi >= len(ob.watch) {
			continue
		}
		body := strings.TrimSpace(p[nl+1:])
		if i := strings.Index(body, "\n@"); i >= 0 {
			body = body[:i]
		}
		if v, ok := secondOfPair(body); ok {
			vals[ob.watch[wi].Label] = v
		}
	}
	return vals
}

// secondOfPair extracts VALUE from "((TERM VALUE))".
func secondOfPair(s string) (string, bool) {
	s = strings.TrimSpace(s)
	if !strings.HasPrefix(s, "((") {
		return "", false
	}
	// skip TERM: one s-expression starting at index 2
	i := 2
	skip := func() bool {
		for i < len(s) && (s[i] == ' ' || s[i] == '\n') {
			i++
		}
		if i >= len(s) {
			return false
		}
		depth := 0
		instr := false
		for ; i < len(s); i++ {
			c := s[i]
			if instr {
				if c == '"' {
					instr = false
					if depth == 0 {
						i++
						return true
					}
				}
				continue
			}
			switch c {
			case '"':
				instr = true
			case '(':
				depth++
			case ')':
				if depth == 0 {
					return true
				}
				depth--
				if depth == 0 {
					i++
					return true
				}
			case ' ', '\n':
				if depth == 0 {
					return true
				}
			}
		}
		return true
	}
	if !skip() {
		return "", false
	}
	for i < len(s) && (s[i] == ' ' || s[i] == '\n') {
		i++
	}
	st := i
	if !skip() {
		return "", false
	}
	return strings.TrimSpace(s[st:i]), true
}
