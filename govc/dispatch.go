package main

import (
	"fmt"
	"go/token"
	"go/types"
	"sort"
	"strings"

	"golang.org/x/tools/go/ssa"
)

// dispatch implements the derived contract of streams.TypeResolver.Resolve at a
// call site in pub (DESIGN.md 3.4): the resolver calls at most one of the
// functions registered through <wrapped>.callbacks(other): either an
// application function from 'other', or one of the wrapped methods of the
// callbacks struct, or nothing (unmatched).
func (vc *FuncVC) dispatch(s *State, cl *callee, ord int, site ssa.Instruction, pos token.Pos) []Term {
	cb := vc.lastCallbacks
	errT := cl.sig.Results().At(0).Type()
	if cb == nil {
		vc.outsideSubset("Resolve without a preceding callbacks() call")
		return []Term{vc.freshConst("resolve_err", "Iface")}
	}
	vc.assumedUsed["derived contract of TypeResolver.Resolve (premises: C14 Resolve/NewTypeResolver contracts, callbacks() postcondition)"] = true
	preState := s.clone()
	ctx := cl.args[1]
	act := cl.args[2]
	choice := vc.freshConst("dispatch_choice", "Int")
	type alt struct {
		name string
		fn   *ssa.Function
	}
	var alts []alt
	ms := vc.eng.prog.MethodSets.MethodSet(cb.recvT)
	for i := 0; i < ms.Len(); i++ {
		sel := ms.At(i)
		f := vc.eng.prog.MethodValue(sel)
		if f == nil || f.Name() == "callbacks" {
			continue
		}
		sig := f.Signature
		if sig.Params().Len() != 2 || sig.Results().Len() != 1 {
			continue
		}
		alts = append(alts, alt{f.Name(), f})
	}
	sort.Slice(alts, func(i, j int) bool { return alts[i].name < alts[j].name })
	var outs []*State
	// alternative 0: nothing matched
	{
		s0 := s.clone()
		s0.pc = vc.namePC(and(s.pc, eq(choice, intLit(0))), "disp_none")
		r := vc.freshConst("resolve_unmatched", "Iface")
		vc.assume(s0.pc, T("Bool", fmt.Sprintf("(and (not (= %s (mkI 0 0))) (isUnmatched %s))", r.S, r.S)))
		s0.vars["TMP:dispatch"] = r
		outs = append(outs, s0)
	}
	// alternative 1: an application callback from 'other'
	{
		s1 := s.clone()
		s1.pc = vc.namePC(and(s.pc, eq(choice, intLit(1))), "disp_other")
		var c *Contract
		ck := "dyncall appcallback"
		if dc, ok := vc.eng.specs.Contracts[ck]; ok {
			c = dc
		}
		sig := types.NewSignatureType(nil, nil, nil, types.NewTuple(types.NewVar(0, nil, "c", ctx.GoT), types.NewVar(0, nil, "a", act.GoT)), types.NewTuple(types.NewVar(0, nil, "", errT)), false)
		acl := &callee{name: "dispatch.other", c: c, ckey: ck, sig: sig, pnames: []string{"c", "a"}, args: []Term{ctx, act}}
		res := vc.applyContract(s1, acl, ord, site, pos)
		s1.vars["TMP:dispatch"] = res[0]
		outs = append(outs, s1)
	}
	for i, a := range alts {
		sa := s.clone()
		sa.pc = vc.namePC(and(s.pc, eq(choice, intLit(int64(i+2)))), "disp_"+a.name)
		key := fnKey(a.fn)
		c := vc.eng.specs.Contracts[key]
		var pn []string
		for _, p := range a.fn.Params {
			pn = append(pn, p.Name())
		}
		// the value handed to the callback has the callback's parameter type
		arg := act
		arg.GoT = a.fn.Signature.Params().At(1).Type()
		acl := &callee{name: "dispatch." + a.name, c: c, ckey: key, fn: a.fn, sig: a.fn.Signature, pnames: pn, args: []Term{cb.recv, ctx, arg}}
		// C14 (proved on streams/gen_type_resolver.go): the callback invoked is the one written for the
		// value's own type, and the own type's callback is invoked when registered. callbacks() registers
		// the wrapped callback for T unless 'other' holds a function of that signature (premise, listed).
		if tn := wrappedTypeName(a.fn); tn != "" {
			pt := a.fn.Signature.Params().At(1).Type()
			env := vc.newEnv(preState, preState, pos)
			av := act
			av.GoT = pt
			env.vars["$act"] = av
			if cl0, err := parseClause(nil, fmt.Sprintf("$act.GetTypeName() == %q", tn)); err == nil {
				isT := vc.tr(env, cl0.E)
				vc.assume(s.pc, imp(eq(choice, intLit(int64(i+2))), isT))
				vc.eng.needFun(vc, "disp!overrides", []string{"Slice", "Int"}, "Bool")
				ov := T("Bool", fmt.Sprintf("(disp!overrides %s %d)", cb.other.S, vc.ss.typeTag(a.fn.Signature)))
				impl := vc.implementsTerm(act, act.GoT, pt)
				vc.assume(s.pc, imp(and(isT, impl, not(ov)), eq(choice, intLit(int64(i+2)))))
			}
		}
		res := vc.applyContract(sa, acl, ord, site, pos)
		sa.vars["TMP:dispatch"] = res[0]
		outs = append(outs, sa)
	}
	vc.assume(s.pc, T("Bool", fmt.Sprintf("(and (<= 0 %s) (<= %s %d))", choice.S, choice.S, len(alts)+1)))
	m := vc.merge(outs, "dispatch")
	r := m.vars["TMP:dispatch"]
	delete(m.vars, "TMP:dispatch")
	s.vars = m.vars
	s.pc = m.pc
	r.GoT = errT
	_ = strings.TrimSpace
	// caller-side clauses attached to the Resolve site (ghost updates, assume!post)
	siteKey := fmt.Sprintf("call %s#%d", cl.name, ord)
	if vc.cur.c != nil {
		if ss := vc.cur.c.Sites[siteKey]; ss != nil {
			vc.sitesUsed[siteKey] = true
			vc.siteClauses(s, preState, ss, siteKey, cl, []Term{r}, pos)
		}
	}
	return []Term{r}
}

// wrappedTypeName: "Block" for a wrapped callback func(context.Context, vocab.ActivityStreamsBlock) error.
func wrappedTypeName(f *ssa.Function) string {
	if f.Signature.Params().Len() != 2 {
		return ""
	}
	nt, ok := f.Signature.Params().At(1).Type().(*types.Named)
	if !ok {
		return ""
	}
	n := nt.Obj().Name()
	if !strings.HasPrefix(n, "ActivityStreams") {
		return ""
	}
	return strings.TrimPrefix(n, "ActivityStreams")
}
