package main

import (
	"fmt"
	"golang.org/x/tools/go/packages"
	"golang.org/x/tools/go/ssa"
	"golang.org/x/tools/go/ssa/ssautil"
)

func main() {
	cfg := &packages.Config{Mode: packages.LoadAllSyntax, Dir: "/repo", BuildFlags: []string{"-tags=verif"}}
	pkgs, err := packages.Load(cfg, "./pub")
	if err != nil {
		panic(err)
	}
	prog, spkgs := ssautil.AllPackages(pkgs, ssa.NaiveForm|ssa.GlobalDebug)
	prog.Build()
	fmt.Println(len(spkgs))
}
