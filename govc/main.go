package main

import (
	"runtime/pprof"
	"encoding/json"
	"flag"
	"fmt"
	"os"
	"regexp"
	"sort"
	"strings"
	"sync"
	"time"

	"golang.org/x/tools/go/ssa"
)

type FuncReport struct {
	Func        string   `json:"func"`
	Pos         string   `json:"pos"`
	Outside     []string `json:"outside_subset,omitempty"`
	Uncontracted []string `json:"uncontracted_calls,omitempty"`
	Assumed     []string `json:"assumed,omitempty"`
	Notes       []string `json:"notes,omitempty"`
	Inlined     []string `json:"inlined_callees,omitempty"`
	SpecErrors  []string `json:"spec_errors,omitempty"`
	UnusedSites []string `json:"unused_sites,omitempty"`
	NObl        int      `json:"obligations"`
	TranslateS  float64  `json:"translate_s"`
	SolveS      float64  `json:"solve_s"`
}

type Report struct {
	Property    string        `json:"property"`
	LoadS       float64       `json:"load_s"`
	WallS       float64       `json:"wall_s"`
	Functions   []*FuncReport `json:"functions"`
	Obligations []*Obligation `json:"obligations"`
	Errors      []string      `json:"errors,omitempty"`
	Skipped     []string      `json:"not_verified,omitempty"`
}

func skipped(c *Contract, prop string) bool {
	for _, s := range c.Skip {
		if strings.HasPrefix(s, prop+" ") || s == prop {
			return true
		}
	}
	return false
}

func hasTag(c *Contract, prop string) bool {
	chk := func(cls []Clause) bool {
		for _, cl := range cls {
			for _, t := range cl.Tags {
				if t == prop {
					return true
				}
			}
		}
		return false
	}
	if chk(c.Req) || chk(c.Ens) {
		return true
	}
	if c.Dec != nil && chk([]Clause{*c.Dec}) {
		return true
	}
	for _, l := range c.Loops {
		if chk(l.Inv) {
			return true
		}
		if l.Dec != nil && chk([]Clause{*l.Dec}) {
			return true
		}
	}
	for _, s := range c.Sites {
		if chk(s.Asserts) {
			return true
		}
	}
	return false
}

func main() {
	prop := flag.String("prop", "", "property id")
	dir := flag.String("dir", "/repo", "repository root")
	pkgsFlag := flag.String("pkgs", "./pub", "comma separated package patterns")
	contracts := flag.String("contracts", "", "comma separated contract files (comment lines //@)")
	specDir := flag.String("spec", "/verif/spec", "directory with *.spec prelude files")
	genSpec := flag.String("genspec", "", "comma separated spec files with generated contracts for repo functions (verified, not assumed)")
	out := flag.String("out", "", "output JSON file")
	flag.BoolVar(&devirtualize, "devirt", false, "interface calls on a receiver of statically known concrete repository type go to that type's method")
	only := flag.String("funcs", "", "regexp restricting the functions verified")
	timeout := flag.Int("timeout", 5, "per-obligation solver timeout (s)")
	dump := flag.String("dump", "", "directory to dump SMT scripts into")
	tags := flag.String("tags", "verif", "build tags")
	jobs := flag.Int("j", 20, "parallel functions (small functions wait for their batch while holding a slot)")
	batch := flag.Bool("batch", false, "first pass of small functions in shared solver processes (measured slower than one process per function; off by default)")
	noGroup := flag.Bool("nogroup", false, "check every postcondition clause on its own in the first pass")
	noSlice := flag.Bool("noslice", false, "do not slice the VC per obligation block (send every assumption with every obligation)")
	quant := flag.Bool("slicecontents", false, "model slice contents across append (quantified)")
	cross := flag.Bool("cross", false, "thorough: every obligation is also run alone on all three solvers; any 'sat' is a disagreement")
	info := flag.String("info", "", "print loops and call sites of functions matching this regexp and exit")
	cpuprof := flag.String("cpuprofile", "", "write a CPU profile of the engine itself")
	flag.Parse()
	if *cpuprof != "" {
		f, _ := os.Create(*cpuprof)
		pprof.StartCPUProfile(f)
		defer pprof.StopCPUProfile()
	}
	t0 := time.Now()
	eng, err := loadEngine(*dir, strings.Split(*pkgsFlag, ","), *tags)
	if err != nil {
		fmt.Fprintln(os.Stderr, "load:", err)
		os.Exit(2)
	}
	eng.timeoutS = *timeout
	eng.thorough = *cross
	eng.dumpDir = *dump
	eng.noSlice = *noSlice
	eng.noGroup = *noGroup
	eng.noBatch = !*batch
	if *dump != "" {
		os.MkdirAll(*dump, 0755)
	}
	sp := newSpecs()
	if err := sp.loadDir(*specDir); err != nil {
		fmt.Fprintln(os.Stderr, "spec:", err)
		os.Exit(2)
	}
	for _, gf := range strings.Split(*genSpec, ",") {
		if gf == "" {
			continue
		}
		if err := sp.loadSpecFile(gf, "", false); err != nil {
			fmt.Fprintln(os.Stderr, "genspec:", err)
			os.Exit(2)
		}
	}
	for _, cf := range strings.Split(*contracts, ",") {
		if cf == "" {
			continue
		}
		if err := sp.loadSpecFile(cf, "//@", false); err != nil {
			fmt.Fprintln(os.Stderr, "contracts:", err)
			os.Exit(2)
		}
	}
	eng.specs = sp
	if *info != "" {
		printInfo(eng, regexp.MustCompile(*info))
		return
	}
	rep := &Report{Property: *prop, LoadS: eng.loadS}
	var re *regexp.Regexp
	if *only != "" {
		re = regexp.MustCompile(*only)
	}
	// functions under contract for this property
	var keys []string
	for k, c := range sp.Contracts {
		if c.Kind != "func" || c.External {
			continue
		}
		if !hasTag(c, *prop) || skipped(c, *prop) {
			continue
		}
		if re != nil && !re.MatchString(k) {
			continue
		}
		if eng.fnByKey[k] == nil {
			rep.Errors = append(rep.Errors, fmt.Sprintf("contract for unknown function %q (%s:%d)", k, c.Origin, c.Line))
			continue
		}
		keys = append(keys, k)
	}
	sort.Strings(keys)
	tmpdir, _ := os.MkdirTemp("", "govc")
	defer os.RemoveAll(tmpdir)
	var mu sync.Mutex
	var wg sync.WaitGroup
	sem := make(chan struct{}, *jobs)
	scheduled := map[string]bool{}
	var schedule func(k string)
	schedule = func(k string) {
		mu.Lock()
		if scheduled[k] {
			mu.Unlock()
			return
		}
		scheduled[k] = true
		mu.Unlock()
		wg.Add(1)
		go func() {
			defer wg.Done()
			sem <- struct{}{}
			fr, obls, used := verifyOne(eng, k, *prop, tmpdir, *quant)
			<-sem
			mu.Lock()
			rep.Functions = append(rep.Functions, fr)
			rep.Obligations = append(rep.Obligations, obls...)
			mu.Unlock()
			// every repo function whose contract was relied on is verified in the same run
			if re == nil {
				for _, u := range used {
					if c := sp.Contracts[u]; c != nil && !c.External && c.Kind == "func" && eng.fnByKey[u] != nil && !c.Trusted && !skipped(c, *prop) {
						schedule(u)
					}
				}
			}
		}()
	}
	for _, k := range keys {
		schedule(k)
	}
	wg.Wait()
	for k, c := range sp.Contracts {
		if c.Kind == "func" && !c.External && skipped(c, *prop) {
			for _, sk := range c.Skip {
				if strings.HasPrefix(sk, *prop) {
					rep.Skipped = append(rep.Skipped, k+": "+sk)
				}
			}
		}
		if c.Kind == "func" && !c.External && c.Trusted {
			rep.Skipped = append(rep.Skipped, k+": trusted (contract assumed, body not verified)")
		}
	}
	sort.Strings(rep.Skipped)
	sort.Slice(rep.Functions, func(i, j int) bool { return rep.Functions[i].Func < rep.Functions[j].Func })
	sort.SliceStable(rep.Obligations, func(i, j int) bool { return rep.Obligations[i].Func < rep.Obligations[j].Func })
	rep.WallS = time.Since(t0).Seconds()
	if len(rep.Obligations) > 20000 {
		// large runs: a discharged obligation keeps its identity, kind, deciding solver and time; its clause text
		// (repeated per return statement) is cut short so that the report stays small
		for _, o := range rep.Obligations {
			if o.Verdict == "discharged" {
				if len(o.Clause) > 80 {
					o.Clause = o.Clause[:80] + "..."
				}
				o.PerSolver = nil
				o.Pos = ""
				o.Prop = ""
			}
		}
	}
	data, _ := json.Marshal(rep)
	if *out != "" {
		os.WriteFile(*out, data, 0644)
	} else {
		os.Stdout.Write(data)
	}
	// summary on stderr
	n, d := 0, 0
	for _, o := range rep.Obligations {
		if o.Kind == "cover.info" {
			continue
		}
		n++
		if o.Verdict == "discharged" {
			d++
		} else {
			fmt.Fprintf(os.Stderr, "NOT DISCHARGED [%s] %s  (%s) %v\n", o.Verdict, o.ID, o.Clause, o.PerSolver)
		}
	}
	for _, f := range rep.Functions {
		for _, e := range f.SpecErrors {
			fmt.Fprintf(os.Stderr, "SPEC ERROR %s: %s\n", f.Func, e)
		}
		for _, e := range f.Outside {
			fmt.Fprintf(os.Stderr, "OUTSIDE SUBSET %s: %s\n", f.Func, e)
		}
		for _, e := range f.Uncontracted {
			fmt.Fprintf(os.Stderr, "UNCONTRACTED %s: %s\n", f.Func, e)
		}
	}
	for _, e := range rep.Errors {
		fmt.Fprintf(os.Stderr, "ERROR %s\n", e)
	}
	fmt.Fprintf(os.Stderr, "%s: %d functions, %d/%d obligations discharged, load %.1fs wall %.1fs\n", *prop, len(rep.Functions), d, n, rep.LoadS, rep.WallS)
}

func verifyOne(eng *Engine, key, prop, tmpdir string, quant bool) (fr *FuncReport, obls []*Obligation, used []string) {
	fn := eng.fnByKey[key]
	fr = &FuncReport{Func: key}
	defer func() {
		if r := recover(); r != nil {
			fr.Outside = append(fr.Outside, fmt.Sprintf("engine panic: %v", r))
			ob := &Obligation{ID: prop + "/" + key + "/engine", Prop: prop, Func: key, Kind: "engine", Clause: fmt.Sprint(r), Expect: "unsat", Verdict: "engine-error"}
			obls = []*Obligation{ob}
		}
	}()
	vc := newFuncVC(eng, fn, key, prop)
	vc.useQuantSlices = quant
	fr.Pos = vc.posStr(fn.Pos())
	t0 := time.Now()
	vc.run()
	fr.TranslateS = time.Since(t0).Seconds()
	t1 := time.Now()
	eng.solveBatched(vc, tmpdir)
	fr.SolveS = time.Since(t1).Seconds()
	fr.Outside = vc.outside
	fr.Uncontracted = sortedKeysB(vc.uncontracted)
	fr.Assumed = sortedKeysB(vc.assumedUsed)
	fr.Notes = vc.notes
	fr.Inlined = sortedKeysB(vc.inlinedFns)
	fr.SpecErrors = vc.specErrors
	if vc.c != nil {
		for k := range vc.c.Sites {
			if !vc.sitesUsed[k] && !strings.HasPrefix(k, "return#") && k != "entry" {
				fr.UnusedSites = append(fr.UnusedSites, k)
			}
		}
	}
	fr.NObl = len(vc.obls)
	// vacuity: some return must be reachable
	nret, reach := 0, 0
	for _, o := range vc.obls {
		if o.Kind == "cover.info" && o.Verdict != "reachability-not-checked" {
			nret++
			if o.Verdict != "unreachable" {
				reach++
			}
		}
	}
	if nret > 0 && reach == 0 {
		vc.obls = append(vc.obls, &Obligation{ID: prop + "/" + key + "/cover:some-return", Prop: prop, Func: key, Kind: "cover", Clause: "no return shown reachable (vacuous contract?)", Expect: "sat", Verdict: "failed"})
	}
	if len(vc.specErrors) > 0 || len(vc.outside) > 0 {
		// a function that could not be translated faithfully is never reported as proved
		ob := &Obligation{ID: prop + "/" + key + "/translation", Prop: prop, Func: key, Kind: "engine",
			Clause: strings.Join(append(append([]string{}, vc.specErrors...), vc.outside...), "; "), Expect: "unsat", Verdict: "engine-error"}
		vc.obls = append(vc.obls, ob)
	}
	return fr, vc.obls, sortedKeysB(vc.usedContracts)
}

func newFuncVC(eng *Engine, fn *ssa.Function, key, prop string) *FuncVC {
	vc := &FuncVC{eng: eng, fn: fn, key: key, prop: prop, ss: newSorts()}
	vc.c = eng.specs.Contracts[key]
	vc.heapSorts = map[string]string{}
	vc.edgePC = map[edgeF]Term{}
	vc.inlinedFns = map[string]bool{}
	vc.sitesUsed = map[string]bool{}
	vc.frameReported = map[string]bool{}
	return vc
}

func printInfo(eng *Engine, re *regexp.Regexp) {
	var keys []string
	for k := range eng.fnByKey {
		if re.MatchString(k) {
			keys = append(keys, k)
		}
	}
	sort.Strings(keys)
	for _, k := range keys {
		fn := eng.fnByKey[k]
		if len(fn.Blocks) == 0 {
			continue
		}
		vc := newFuncVC(eng, fn, k, "info")
		vc.analyzeCFG()
		var ps []string
		for _, p := range fn.Params {
			ps = append(ps, p.Name())
		}
		var fvs []string
		for _, p := range fn.FreeVars {
			fvs = append(fvs, p.Name())
		}
		fmt.Printf("func %s  (%s) params=%v freevars=%v\n", k, vc.posStr(fn.Pos()), ps, fvs)
		var ls []*loopInfo
		for _, li := range vc.cur.loops {
			ls = append(ls, li)
		}
		sort.Slice(ls, func(i, j int) bool { return ls[i].ord < ls[j].ord })
		for _, li := range ls {
			fmt.Printf("   loop %d at %s\n", li.ord, vc.posStr(li.pos))
		}
		type cs struct {
			s   string
			pos string
		}
		for _, b := range fn.Blocks {
			for _, in := range b.Instrs {
				if n, ok := vc.cur.callOrd[in]; ok {
					fmt.Printf("   call %s#%d at %s\n", vc.cur.callKeyOf[in], n, vc.posStr(in.Pos()))
				}
				if r, ok := in.(*ssa.Return); ok {
					fmt.Printf("   return#%d at %s\n", vc.cur.retOrd[b], vc.posStr(r.Pos()))
				}
			}
		}
	}
}
