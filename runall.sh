#!/bin/bash
# run every claimed check (quick); non-zero exit if any raises an alarm
cd /verif
bad=0
for p in $(python3 -c "import json;print(' '.join(c['property_id'] for c in json.load(open('MANIFEST.json'))['checks']))"); do
  out=$(./check $p 2>&1); rc=$?
  echo "$out" | tail -1 | cut -c1-150
  if [ $rc -ne 0 ]; then bad=1; echo "$out" | grep VIOLATION | cut -c1-250; fi
done
exit $bad
