package pub

// Bounded stand-in for the one function of C19 that is outside the verifier's sequential subset:
// HttpSigTransport.BatchDeliver (goroutines, WaitGroup, buffered channel, select). NOT a proof:
// every batch of n <= bdMaxN recipients and every subset of failing recipients is executed on the
// real code (under the race detector in the thorough tier), concurrently with a second batch on
// the same transport. Checked per batch: every recipient attempted exactly once, an error iff at
// least one attempt failed, every failure named in the error.
import (
	"context"
	"crypto"
	"fmt"
	"io/ioutil"
	"net/http"
	"net/url"
	"os"
	"strconv"
	"strings"
	"sync"
	"testing"
	"time"
)

type bdClient struct {
	mu   sync.Mutex
	seen map[string]int
	fail map[string]bool
}

func (c *bdClient) Do(req *http.Request) (*http.Response, error) {
	c.mu.Lock()
	c.seen[req.URL.String()]++
	bad := c.fail[req.URL.String()]
	c.mu.Unlock()
	if bad {
		if strings.HasSuffix(req.URL.Path, "/transport") {
			return nil, fmt.Errorf("transport failure for %s", req.URL)
		}
		return &http.Response{StatusCode: 500, Status: "500 broken " + req.URL.Path, Body: ioutil.NopCloser(strings.NewReader(""))}, nil
	}
	return &http.Response{StatusCode: 202, Status: "202 Accepted", Body: ioutil.NopCloser(strings.NewReader(""))}, nil
}

type bdSigner struct {
	mu sync.Mutex
	n  int // unsynchronised use of a shared signer shows up as a race on n
}

func (s *bdSigner) SignRequest(pKey crypto.PrivateKey, pubKeyId string, r *http.Request, body []byte) error {
	s.n++
	r.Header.Set("Signature", "sig"+strconv.Itoa(len(body)))
	return nil
}

func (s *bdSigner) SignResponse(pKey crypto.PrivateKey, pubKeyId string, r http.ResponseWriter, body []byte) error {
	return nil
}

type bdClock struct{}

func (bdClock) Now() time.Time { return time.Unix(1600000000, 0) }

func TestBoundedC19BatchDeliver(t *testing.T) {
	maxN := 4
	if v := os.Getenv("VERIF_BD_MAXN"); v != "" {
		maxN, _ = strconv.Atoi(v)
	}
	for n := 0; n <= maxN; n++ {
		for mask := 0; mask < 1<<uint(n); mask++ {
			cl := &bdClient{seen: map[string]int{}, fail: map[string]bool{}}
			tp := NewHttpSigTransport(cl, "app", bdClock{}, &bdSigner{}, &bdSigner{}, "key", nil)
			var recips []*url.URL
			nFail := 0
			for i := 0; i < n; i++ {
				kind := "status"
				if i%2 == 1 {
					kind = "transport"
				}
				u, _ := url.Parse(fmt.Sprintf("https://peer%d.example/inbox/%s", i, kind))
				recips = append(recips, u)
				if mask&(1<<uint(i)) != 0 {
					cl.fail[u.String()] = true
					nFail++
				}
			}
			// a second batch on the same transport, concurrently
			other, _ := url.Parse("https://other.example/inbox/status")
			done := make(chan error, 1)
			go func() { done <- tp.BatchDeliver(context.Background(), []byte("{}"), []*url.URL{other}) }()
			err := tp.BatchDeliver(context.Background(), []byte(`{"type":"Note"}`), recips)
			if e2 := <-done; e2 != nil {
				t.Fatalf("n=%d mask=%b: the concurrent batch failed: %v", n, mask, e2)
			}
			for _, u := range recips {
				if cl.seen[u.String()] != 1 {
					t.Fatalf("n=%d mask=%b: recipient %s attempted %d times, want exactly once", n, mask, u, cl.seen[u.String()])
				}
			}
			if (err != nil) != (nFail > 0) {
				t.Fatalf("n=%d mask=%b: %d failures but error=%v", n, mask, nFail, err)
			}
			for _, u := range recips {
				if cl.fail[u.String()] && !strings.Contains(err.Error(), u.Host) {
					t.Fatalf("n=%d mask=%b: failure of %s is not named in the error: %v", n, mask, u, err)
				}
			}
		}
	}
}
