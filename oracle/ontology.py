#!/usr/bin/env python3
"""Independent reading of the vocabulary JSON-LD files (no use of astool's rdf package).

Computes, from /repo/astool/{activitystreams,toot,forgefed,security-v1}.jsonld only:
  types: name -> {vocab, parents, disjoint (declared), typeless}
  Anc/Desc (transitive closure of subClassOf), Disj (closure of declared disjointness over
  ancestor-or-self on both sides, either direction)
  properties: name -> {vocab, domain, range, functional, natural_language_map, withheld_from}
and can emit the C13 contracts as a spec file for govc.
"""
import json, os, sys

VOCABS = [  # file, Go vocabulary prefix, impl directory, vocabulary URI
    ("activitystreams.jsonld", "ActivityStreams", "activitystreams", "https://www.w3.org/ns/activitystreams"),
    ("toot.jsonld", "Toot", "toot", "http://joinmastodon.org/ns"),
    ("forgefed.jsonld", "ForgeFed", "forgefed", "https://forgefed.peers.community/ns"),
    ("security-v1.jsonld", "W3IDSecurityV1", "w3idsecurityv1", "https://w3id.org/security/v1"),
]


def as_list(x):
    if x is None:
        return []
    if isinstance(x, list):
        return x
    return [x]


def local_name(n):
    if not isinstance(n, str):
        return None
    if ":" in n and not n.startswith("http"):
        n = n.split(":", 1)[1]
    if "#" in n:
        n = n.rsplit("#", 1)[1]
    return n


def ref_names(x):
    """names of the classes a subClassOf / disjointWith / domain / range value refers to"""
    out = []
    for e in as_list(x):
        if isinstance(e, dict):
            if "unionOf" in e:
                out += ref_names(e["unionOf"])
            elif "name" in e:
                out.append(local_name(e["name"]))
            elif "url" in e:
                out.append(local_name(e["url"]))
            elif "id" in e:
                out.append(local_name(e["id"]))
        elif isinstance(e, str):
            out.append(local_name(e))
    return [o for o in out if o]


def members_of(doc):
    out = []
    if "sections" in doc:
        for sec in doc["sections"].values():
            out += as_list(sec.get("members"))
    out += as_list(doc.get("members"))
    return out


def is_class(m):
    return "owl:Class" in as_list(m.get("type"))


def is_property(m):
    ts = as_list(m.get("type"))
    return any(t in ("rdf:Property", "owl:ObjectProperty", "owl:DatatypeProperty", "owl:FunctionalProperty") for t in ts)


def load(repo="/repo"):
    types, props = {}, {}
    for fn, prefix, impldir, uri in VOCABS:
        doc = json.load(open(os.path.join(repo, "astool", fn)))
        for m in members_of(doc):
            if is_class(m) and not is_property(m):
                name = m["name"]
                types[name] = dict(name=name, vocab=prefix, impldir=impldir, uri=uri,
                                   parents=ref_names(m.get("subClassOf")),
                                   disjoint=ref_names(m.get("disjointWith")),
                                   typeless=bool(m.get("@wtf_typeless")),
                                   without=ref_names(m.get("@wtf_without_property")))
            elif is_property(m):
                name = m["name"]
                props[name] = dict(name=name, vocab=prefix, impldir=impldir, uri=uri,
                                   domain=ref_names(m.get("domain")), range=ref_names(m.get("range")),
                                   functional="owl:FunctionalProperty" in as_list(m.get("type")),
                                   without_types=ref_names(m.get("@wtf_without_property")),
                                   raw_range=m.get("range"))
    return types, props


def all_type_names(repo="/repo"):
    """every class name of every vocabulary, with repetitions (load() keys by name and would hide a clash)"""
    out = []
    for fn, prefix, impldir, uri in VOCABS:
        doc = json.load(open(os.path.join(repo, "astool", fn)))
        for m in members_of(doc):
            if is_class(m) and not is_property(m):
                out.append(m["name"])
    return out


def closure(types):
    anc = {}
    def up(t, seen):
        for p in types[t]["parents"]:
            if p in types and p not in seen:
                seen.add(p)
                up(p, seen)
        return seen
    for t in types:
        anc[t] = up(t, set())
    desc = {t: set(u for u in types if t in anc[u]) for t in types}
    decl = set()
    for t, d in types.items():
        for o in d["disjoint"]:
            if o in types:
                decl.add((t, o))
                decl.add((o, t))
    disj = {}
    for a in types:
        sa = anc[a] | {a}
        disj[a] = set(b for b in types if any((x, y) in decl for x in sa for y in (anc[b] | {b})))
    return anc, desc, disj


def lemmas(types, anc, desc, disj):
    """the consistency clauses of C13, checked on the tables"""
    out = []
    for a in types:
        for b in types:
            if (b in anc[a]) != (a in desc[b]):
                out.append("converse fails for %s,%s" % (a, b))
            if (b in disj[a]) != (a in disj[b]):
                out.append("disjointness not symmetric for %s,%s" % (a, b))
        if a in disj[a]:
            out.append("%s disjoint with itself" % a)
        for b in anc[a]:
            if b in disj[a]:
                out.append("%s disjoint with its ancestor %s" % (a, b))
        if a in anc[a]:
            out.append("cycle through %s" % a)
    names = list(types)
    if len(set(names)) != len(names):
        out.append("type names not unique across vocabularies")
    return out


def inset(expr, names):
    if not names:
        return "false"
    return "(" + " || ".join('%s == "%s"' % (expr, n) for n in sorted(names)) + ")"


def emit_c13(types, anc, desc, disj, out):
    tn = "other.GetTypeName()"
    lines = ["# GENERATED on every run by /verif/oracle/ontology.py from /repo/astool/*.jsonld -- C13 contracts", ""]
    for t in sorted(types):
        d = types[t]
        pkg = "streams/impl/%s/type_%s" % (d["impldir"], t.lower())
        V = d["vocab"]
        def fn(key, body):
            lines.append("func " + key)
            lines.extend("  " + b for b in body)
        fn("%s.%s%sExtends" % (pkg, V, t), ["[C13] ensures closure: result == " + inset(tn, anc[t])])
        fn("%s.%sIsExtendedBy" % (pkg, t), ["[C13] ensures closure: result == " + inset(tn, desc[t])])
        fn("%s.IsOrExtends%s" % (pkg, t), ["[C13] ensures closure: result == " + inset(tn, desc[t] | {t})])
        fn("%s.%sIsDisjointWith" % (pkg, t), ["[C13] ensures closure: result == " + inset(tn, disj[t])])
        fn("(%s.%s%s).IsExtending" % (pkg, V, t), ["[C13] ensures closure: result == " + inset(tn, anc[t])])
        fn("(%s.%s%s).GetTypeName" % (pkg, V, t), ['[C13] ensures name: result == "%s"' % t])
        fn("(%s.%s%s).VocabularyURI" % (pkg, V, t), ['[C13] ensures uri: result == "%s"' % d["uri"]])
        fn("streams.%s%s%sExtends" % (V, V, t), ["[C13] ensures closure: result == " + inset(tn, anc[t])])
        fn("streams.%s%sIsExtendedBy" % (V, t), ["[C13] ensures closure: result == " + inset(tn, desc[t])])
        fn("streams.IsOrExtends%s%s" % (V, t), ["[C13] ensures closure: result == " + inset(tn, desc[t] | {t})])
        fn("streams.%s%sIsDisjointWith" % (V, t), ["[C13] ensures closure: result == " + inset(tn, disj[t])])
        lines.append("")
    open(out, "w").write("\n".join(lines) + "\n")



VALUE_VOCAB = dict(string="XMLSchema", dateTime="XMLSchema", boolean="XMLSchema", float="XMLSchema", nonNegativeInteger="XMLSchema",
                   anyURI="XMLSchema", duration="XMLSchema", langString="RDF", bcp47="RFC", rfc2045="RFC", rfc5988="RFC")


def cap(s):
    return s[0].upper() + s[1:]


def emit_c12(repo, types, props, anc, desc, out):
    """C12: which properties each type has and which value kinds each property admits, from the ontology
    files alone; compared with the DECLARATIONS of the generated structs (structural lemma, reported by
    name) and turned into contracts for the type-level accessors (verified by govc against the bodies)."""
    import glob, re
    sys.path.insert(0, os.path.dirname(os.path.abspath(__file__)))
    import containers
    bad = []
    L = ["# GENERATED on every run by /verif/oracle/ontology.py from /repo/astool/*.jsonld -- C12 contracts", ""]
    nfun = 0
    # ---- (1) each type has exactly its ontology's properties (+ id, + type unless typeless)
    for t in sorted(types):
        d = types[t]
        line = {t} | anc[t]
        exp = set()
        for pn, pd in props.items():
            if set(pd["domain"]) & line and not (set(pd.get("without_types") or []) & line):
                exp.add(pd["vocab"] + cap(pn))
        exp.add("JSONLDId")
        if not d["typeless"]:
            exp.add("JSONLDType")
        path = glob.glob(os.path.join(repo, "streams/impl/%s/type_%s/gen_type_*.go" % (d["impldir"], t.lower())))
        if not path:
            bad.append("no generated package for type " + t)
            continue
        src = open(path[0]).read()
        sname = d["vocab"] + t
        m = re.search(r"^type %s struct \{\n(.*?)^\}" % sname, src, re.M | re.S)
        have = set()
        for ln in m.group(1).split("\n"):
            ps = ln.split()
            if len(ps) == 2 and ps[1].startswith("vocab.") and ps[1].endswith("Property"):
                have.add(ps[0])
                if ps[1] != "vocab." + ps[0] + "Property":
                    bad.append("%s.%s has type %s" % (sname, ps[0], ps[1]))
        for x in sorted(exp - have):
            bad.append("type %s lacks the property %s the ontology gives it" % (sname, x))
        for x in sorted(have - exp):
            bad.append("type %s has the property %s the ontology does not give it" % (sname, x))
        pkg = "streams/impl/%s/type_%s" % (d["impldir"], t.lower())
        for x in sorted(exp & have):
            L.append("func (%s.%s).Get%s" % (pkg, sname, x))
            L.append("  [C12] ensures returns_the_property_held: result == this.%s" % x)
            L.append("func (*%s.%s).Set%s" % (pkg, sname, x))
            L.append("  params this, i")
            L.append("  modifies H:%s.%s.%s[this]" % (pkg, sname, x))
            L.append("  [C12] ensures holds_the_property_given: this.%s == i" % x)
            nfun += 2
    # ---- (2) each property admits exactly the kinds in its declared range (a ranged type with all its descendants), is
    # functional iff declared so, and is a natural-language property iff its range has rdf:langString
    for pn in sorted(props):
        pd = props[pn]
        exp = set()
        for r in pd["range"]:
            if r in types:
                for x in {r} | desc[r]:
                    exp.add((types[x]["vocab"] + x).lower())
            elif r in VALUE_VOCAB:
                exp.add((VALUE_VOCAB[r] + cap(r)).lower())
            else:
                bad.append("property %s: unknown range entry %s" % (pn, r))
        path = glob.glob(os.path.join(repo, "streams/impl/%s/property_%s/gen_property_*.go" % (pd["impldir"], pn.lower())))
        if not path:
            bad.append("no generated package for property " + pn)
            continue
        pkg, structs, methods = containers.parse(path[0])
        pname = pd["vocab"] + cap(pn) + "Property"
        if pname not in structs:
            bad.append("property %s: struct %s not found" % (pn, pname))
            continue
        fields = structs[pname]
        is_seq = [f for f, _ in fields] == ["properties", "alias"]
        if is_seq == bool(pd["functional"]):
            bad.append("property %s is declared %s but generated as %s" % (pn, "functional" if pd["functional"] else "non-functional", "a sequence" if is_seq else "a single slot"))
        slotname = pname + "Iterator" if is_seq else pname
        have = set()
        for f, tname in structs.get(slotname, []):
            if f.endswith("Member") and not f.startswith("has"):
                have.add(f[:-len("Member")].lower())
        for x in sorted(exp - have):
            bad.append("property %s does not admit the kind %s of its declared range" % (pn, x))
        for x in sorted(have - exp):
            bad.append("property %s admits the kind %s outside its declared range" % (pn, x))
        names = [f for f, _ in structs.get(slotname, [])]
        anyuri_kind = "xmlschemaanyuri" in exp  # an IRI is then held as the xsd:anyURI kind itself
        if "iri" not in names and not anyuri_kind:
            bad.append("property %s does not admit an IRI" % pn)
        if ("langString" in pd["range"]) != ("rdflangstring" in have):
            bad.append("property %s: natural-language map form does not follow the declared range" % pn)
    open(out, "w").write("\n".join(L) + "\n")
    return bad, nfun

def emit_c12_types(repo, types, props, anc, out, only=None, serialize=False, decode=True, maxprops=None):
    """C12, decoding side of 'each type has exactly its ontology's properties': Deserialize<Type> hands the document to the
    decoder of each of those properties (and to no other), keeps what that decoder returns in the property's own field, and
    keeps exactly the members whose name is not one of those properties' names (or 'Map' forms) as unknown members."""
    L = ["# GENERATED on every run by /verif/oracle/ontology.py from /repo/astool/*.jsonld -- C12 contracts for Deserialize<Type>", ""]
    nfun = 0
    for t in sorted(types):
        if only and t not in only:
            continue
        d = types[t]
        line = {t} | anc[t]
        exp = []  # (field, decoder method, member names)
        for pn, pd in sorted(props.items()):
            if set(pd["domain"]) & line and not (set(pd.get("without_types") or []) & line):
                names = [pn] + ([pn + "Map"] if "langString" in pd["range"] else [])
                exp.append((pd["vocab"] + cap(pn), "Deserialize%sProperty%s" % (cap(pn), pd["vocab"]), names))
        exp.append(("JSONLDId", "DeserializeIdPropertyJSONLD", ["id"]))
        if not d["typeless"]:
            exp.append(("JSONLDType", "DeserializeTypePropertyJSONLD", ["type"]))
        pkg = "streams/impl/%s/type_%s" % (d["impldir"], t.lower())
        known = sorted(set(n for _, _, ns in exp for n in ns))
        L.append("specfun knownMember%s%s(k) = %s" % (d["vocab"], t, " || ".join('k == "%s"' % n for n in known)))
        L.append("func %s.Deserialize%s" % (pkg, t))
        L.append("  params m, aliasMap")
        L.append("  [C11] requires manager_installed: mgr != nil")
        L.append("  [C11] ensures terminates_without_panic: true")
        for f, dec, _ in sorted(exp):
            fnv = 'decFnByName("%s")' % dec
            L.append("  [C12] ensures %s_is_what_its_own_decoder_returns: result1 == nil ==> decOK(%s, m, aliasMap) && result0.%s == decVal(%s, m, aliasMap)" % (f, fnv, f, fnv))
        K = "knownMember%s%s" % (d["vocab"], t)
        L.append("  [C12] ensures exactly_the_other_members_are_kept_as_unknown: result1 == nil ==> (forall k String :: {has(result0.unknown, k)} has(result0.unknown, k) == (has(m, k) && !%s(k)))" % K)
        L.append("  [C12] ensures unknown_members_keep_their_value: result1 == nil ==> (forall k String :: {result0.unknown[k]} has(m, k) && !%s(k) ==> result0.unknown[k] == m[k])" % K)
        lo = 1 if d["typeless"] else 2
        L.append("  loop %d [C11,C12] invariant own_fresh_map: this != nil && this.unknown != nil && fresh(this.unknown) && fresh(this)" % lo)
        L.append("  loop %d [C11,C12] invariant visited_are_members: forall k String :: {visited(1)[k]} visited(1)[k] ==> has(m, k)" % lo)
        L.append("  loop %d [C11,C12] invariant unknown_so_far: forall k String :: {has(this.unknown, k)} has(this.unknown, k) == (visited(1)[k] && !%s(k))" % (lo, K))
        L.append("  loop %d [C11,C12] invariant unknown_values_so_far: forall k String :: {this.unknown[k]} visited(1)[k] && !%s(k) ==> this.unknown[k] == m[k]" % (lo, K))
        for f, dec, _ in sorted(exp):
            fnv = 'decFnByName("%s")' % dec
            L.append("  loop %d [C11,C12] invariant %s_decoded: decOK(%s, m, aliasMap) && this.%s == decVal(%s, m, aliasMap)" % (lo, f, fnv, f, fnv))
        if serialize and (maxprops is None or len(exp) <= maxprops):
            # ---- writing: every held property goes under its own Name(), unknown members are added unless a property took
            # the name, nothing else is written
            S = "%s.%s%s" % (pkg, d["vocab"], t)
            fields = sorted(f for f, _, _ in exp)
            W = "writtenBy%s%s" % (d["vocab"], t)
            L.append("specfun %s(k) = %s%s" % (W, " || ".join("(W_%s && N_%s == k)" % (f, f) for f in fields), "" if d["typeless"] else ' || k == "type"'))
            L.append("func (%s).Serialize" % S)
            L.append("  params this")
            for f in fields:
                L.append("  let N_%s = this.%s.Name()" % (f, f))
                L.append("  let V_%s = this.%s.Serialize_0()" % (f, f))
                L.append("  let E_%s = this.%s.Serialize_1()" % (f, f))
                L.append("  let W_%s = (this.%s != nil && V_%s != nil)" % (f, f, f))
            for f in fields:
                # no other held property claims the same member name
                L.append("  let U_%s = (%s)" % (f, " && ".join("(this.%s == nil || N_%s != N_%s)" % (g, g, f) for g in fields if g != f) or "true"))
            for f in fields:
                L.append("  [C12] ensures %s_is_written_under_its_own_name: result1 == nil && W_%s && U_%s ==> has(result0, N_%s) && result0[N_%s] == V_%s" % (f, f, f, f, f, f))
                L.append("  [C12] ensures a_failure_of_%s_fails_the_whole: this.%s != nil && E_%s != nil ==> result1 != nil" % (f, f, f))
            L.append("  [C12] ensures unknown_members_are_written_unless_a_property_took_the_name: result1 == nil ==> (forall k String :: {result0[k]} has(this.unknown, k) && !%s(k) ==> has(result0, k) && result0[k] == this.unknown[k])" % W)
            L.append("  [C12] ensures nothing_else_is_written: result1 == nil ==> (forall k String :: {has(result0, k)} has(result0, k) ==> has(this.unknown, k) || %s(k))" % W)
            L.append("  loop 1 [C12] invariant own_new_map: m != nil && fresh(m)")
            L.append("  loop 1 [C12] invariant only_written_names_and_visited_members: forall k String :: {has(m, k)} has(m, k) ==> %s(k) || visited(1)[k]" % W)
            L.append("  loop 1 [C12] invariant visited_members_are_present: forall k String :: {visited(1)[k]} visited(1)[k] ==> has(m, k)")
            L.append("  loop 1 [C12] invariant visited_are_unknown_members: forall k String :: {visited(1)[k]} visited(1)[k] ==> has(this.unknown, k)")
            L.append("  loop 1 [C12] invariant unknown_values_so_far: forall k String :: {m[k]} visited(1)[k] && !%s(k) ==> m[k] == this.unknown[k]" % W)
            for f in fields:
                L.append("  loop 1 [C12] invariant %s_present: W_%s ==> has(m, N_%s)" % (f, f, f))
                L.append("  loop 1 [C12] invariant %s_written: W_%s && U_%s ==> m[N_%s] == V_%s" % (f, f, f, f, f))
                L.append("  loop 1 [C12] invariant %s_did_not_fail: this.%s != nil ==> E_%s == nil" % (f, f, f))
            nfun += 1
        # ---- construction: a new value holds its own type name in the type property and nothing else
        if decode:
            others = " && ".join("result.%s == nil" % f for f, _, _ in sorted(exp) if f != "JSONLDType") or "true"
            L.append("func %s.New%s%s" % (pkg, d["vocab"], t))
            L.append("  modifies gItems, ASHP")
            if d["typeless"]:
                L.append("  [C12] ensures a_new_value_is_empty: result != nil && result.unknown != nil && %s" % others)
            else:
                ak = "streams/vocab.JSONLDTypeProperty.AppendXMLSchemaString#1"
                L.append('  [C12] at call %s: assert the_type_property_names_this_type: $arg1 == "%s"' % (ak, t))
                L.append("  [C12] at call %s: ghost gItems = $arg0" % ak)
                L.append("  [C12] ensures a_new_value_holds_only_its_type: result != nil && result.unknown != nil && result.JSONLDType != nil && result.JSONLDType == gItems && %s" % others)
                L.append("dyncall %s.New%s%s.* satisfies type-property-constructor" % (pkg, d["vocab"], t))
            nfun += 1
        L.append("dyncall %s.Deserialize%s.* satisfies slot-decoder-call" % (pkg, t))
        for f, dec, _ in sorted(exp):
            L.append("iface %s.privateManager.%s" % (pkg, dec))
            L.append('  ensures result == decFnByName("%s") && result != nil' % dec)
        nfun += 1
    open(out, "w").write("\n".join(L) + "\n")
    return nfun

def emit_c14(types, out):
    """C14: which callback signature belongs to which (vocabulary URI, type name): derived from the ontology
    files only.  specfuns are expanded where the contracts in /repo/streams/verif_contracts.go use them.
    Types are numbered 1..n in name order; 0 = not a type the vocabularies define."""
    ts = sorted(types)
    def iface(t):
        return "streams/vocab.%s%s" % (types[t]["vocab"], t)
    def own(o, t):
        return '(%s.VocabularyURI() == "%s" && %s.GetTypeName() == "%s")' % (o, types[t]["uri"], o, t)
    def alias(t):
        rest = types[t]["uri"].split("://", 1)[1]
        return '(has(aliasMap, "https://%s") ? aliasMap["https://%s"] : (has(aliasMap, "http://%s") ? aliasMap["http://%s"] : ""))' % (rest, rest, rest, rest)
    def jsonname(t):
        a = alias(t)
        return '(typeString == (len(%s) > 0 ? %s + ":" : %s) + "%s")' % (a, a, a, t)
    def chain(cond, val, default):
        e = default
        for k in range(len(ts), 0, -1):
            e = "(%s ? %s : %s)" % (cond(ts[k - 1], k), val(ts[k - 1], k), e)
        return e
    L = ["# GENERATED on every run by /verif/oracle/ontology.py from /repo/astool/*.jsonld -- C14 tables", ""]
    # typed values: the value's own type is the one whose vocabulary URI and name it reports
    L.append("specfun typeIndex(o) = " + chain(lambda t, k: own("o", t), lambda t, k: str(k), "0"))
    # JSON input: the value's own type is named by "<alias>:<Name>" (or the bare name when its vocabulary has no alias);
    # jsonTypeIndex is the FIRST type whose spelling matches; by the lemma checked by `ontology.py c14` (type names
    # are unique and contain no ':') at most one spelling can match, so "first" = "the".
    L.append("specfun jsonTypeIndex(typeString, aliasMap) = " + chain(lambda t, k: jsonname(t), lambda t, k: str(k), "0"))
    L.append("specfun callbackTagOf(i) = " + chain(lambda t, k: "i == %d" % k, lambda t, k: 'functag("%s")' % iface(t), "0 - 1"))
    L.append("specfun predicateTagOf(i) = " + chain(lambda t, k: "i == %d" % k, lambda t, k: 'predtag("%s")' % iface(t), "0 - 1"))
    L.append("specfun implementsIndexed(o, i) = " + chain(lambda t, k: "i == %d" % k, lambda t, k: 'implements(o, "%s")' % iface(t), "false"))
    L.append("specfun legalCallback(cb) = " + " || ".join('cb.dyn == functag("%s")' % iface(t) for t in ts))
    L.append("specfun legalPredicate(cb) = " + " || ".join('cb.dyn == predtag("%s")' % iface(t) for t in ts))
    L.append("fun deserFn (Int) Int")
    for k, t in enumerate(ts):
        # assumed naming: the function value returned by Manager.Deserialize<Name><Vocab>() is deserFn(k)
        L.append("func (streams.Manager).Deserialize%s%s" % (t, types[t]["vocab"]))
        L.append("  trusted")
        L.append("  ensures result == deserFn(%d) && result != nil" % (k + 1))
    open(out, "w").write("\n".join(L) + "\n")


if __name__ == "__main__":
    repo = sys.argv[2] if len(sys.argv) > 2 else "/repo"
    types, props = load(repo)
    anc, desc, disj = closure(types)
    if sys.argv[1] == "c13":
        bad = lemmas(types, anc, desc, disj)
        emit_c13(types, anc, desc, disj, sys.argv[3])
        print(json.dumps(dict(types=len(types), properties=len(props), lemma_failures=bad,
                              pairs=len(types) ** 2)))
    elif sys.argv[1] == "c12":
        bad, nfun = emit_c12(repo, types, props, anc, desc, sys.argv[3])
        print(json.dumps(dict(types=len(types), properties=len(props), type_accessor_contracts=nfun, lemma_failures=bad)))
    elif sys.argv[1] in ("c12types", "c12ser", "c12ser-quick"):
        only = set(sys.argv[4].split(",")) if len(sys.argv) > 4 else None
        if sys.argv[1] == "c12ser-quick" and only is None:
            # quick tier: a typeless type, the two Link types, the base Object and a plain Note; thorough tier: all 63
            only = {"PublicKey", "Link", "Mention", "Object", "Note"}
        n = emit_c12_types(repo, types, props, anc, sys.argv[3], only, serialize=sys.argv[1] != "c12types")
        print(json.dumps(dict(types=len(types), properties=len(props), type_decoder_contracts=n, lemma_failures=[])))
    elif sys.argv[1] == "c14":
        emit_c14(types, sys.argv[3])
        bad = []
        # lemma behind jsonTypeIndex: a "type" string "<prefix><Name>" (prefix empty or ending in ':') determines Name
        seen = {}
        for raw in all_type_names(repo):
            if ":" in raw:
                bad.append("type name contains ':': " + raw)
            if raw in seen:
                bad.append("type name defined twice across vocabularies: " + raw)
            seen[raw] = True
        if len(seen) != len(types):
            bad.append("type table has %d entries but the ontologies define %d names" % (len(types), len(seen)))
        print(json.dumps(dict(types=len(types), vocabularies=sorted(set(types[t]["uri"] for t in types)), lemma_failures=bad)))
    elif sys.argv[1] == "dump":
        print(json.dumps(dict(types={t: dict(types[t], anc=sorted(anc[t]), desc=sorted(desc[t]), disj=sorted(disj[t])) for t in types},
                              props={p: {k: v for k, v in props[p].items() if k != "raw_range"} for p in props}), indent=1))
