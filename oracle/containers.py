#!/usr/bin/env python3
"""containers.py <repo> <out.spec> [--packages p1,p2,...] [--level slots|all]

C18 contracts for the generated property containers, derived on every run from the *declarations*
(struct fields and method signatures) of streams/impl/*/property_*/gen_property_*.go -- never from
the function bodies, which are what govc then verifies against these contracts.

Naming convention relied on (astool/gen): a value kind K of a property is held in a field
"<vocab><K>Member"; a kind whose Go type is not an interface (string, bool, time.Time, ...) has a
companion flag "has<K'>Member" declared directly after it; "iri", "unknown", "alias" are the other
representations; iterators add "myIdx" and "parent"; a non-functional property is
{properties []*<Iterator>; alias string}.  A struct that does not fit is reported, not guessed.
"""
import json, os, re, sys, glob


def parse(path):
    src = open(path).read()
    structs = {}
    for m in re.finditer(r"^type (\w+) struct \{\n(.*?)^\}", src, re.M | re.S):
        fields = []
        for ln in m.group(2).split("\n"):
            ln = ln.strip()
            if not ln or ln.startswith("//"):
                continue
            parts = ln.split(None, 1)
            if len(parts) == 2:
                fields.append((parts[0], parts[1].strip()))
        structs[m.group(1)] = fields
    methods = {}
    for m in re.finditer(r"^func \(this (\*?)(\w+)\) (\w+)\(([^)]*)\) ?([^{]*)\{", src, re.M):
        ptr, recv, name, params, res = m.groups()
        ps = []
        for p in [x.strip() for x in params.split(",") if x.strip()]:
            bits = p.split(None, 1)
            ps.append((bits[0], bits[1] if len(bits) > 1 else ""))
        # "i, j int" style: propagate the type backwards
        for i in range(len(ps) - 2, -1, -1):
            if ps[i][1] == "":
                ps[i] = (ps[i][0], ps[i + 1][1])
        methods.setdefault(recv, {})[name] = dict(ptr=bool(ptr), params=ps, res=res.strip())
    pkg = re.search(r"^package (\w+)", src, re.M).group(1)
    return pkg, structs, methods


# quick tier: every mutator of every non-functional property with at most 4 value kinds (16 packages) is verified;
# the 28 properties with 60+ kinds get the slot semantics of every element, the observers, Swap, Remove, AppendIRI,
# PrependIRI and SetIRI, and for these two also every mutator of the first embedded kind.
# The thorough tier verifies every mutator of every kind of every property (about 25 minutes).
REPRESENTATIVE_TWO_KINDS = {"property_to", "property_ordereditems"}


class Slot:
    """a struct holding at most one representation: functional property or iterator"""
    def __init__(self, name, fields):
        self.name, self.fields = name, fields
        self.kinds = []  # (field, flag or None, gotype)
        self.ok = True
        names = [f for f, _ in fields]
        i = 0
        while i < len(fields):
            f, t = fields[i]
            if f in ("unknown", "iri", "alias", "myIdx", "parent"):
                i += 1
                continue
            if f.endswith("Member") and not f.startswith("has"):
                flag = None
                if i + 1 < len(fields) and fields[i + 1][0].startswith("has") and fields[i + 1][0].endswith("Member") and fields[i + 1][1] == "bool":
                    flag = fields[i + 1][0]
                    i += 1
                self.kinds.append((f, flag, t))
                i += 1
                continue
            self.ok = False
            i += 1
        self.is_iter = "myIdx" in names and "parent" in names
        self.has_iri = "iri" in names
        # properties whose only literal kind is xsd:anyURI hold an IRI as that kind and have no separate iri field
        self.ok_noiri = self.ok and not self.has_iri and {"unknown", "alias"} <= set(names)
        if not {"unknown", "iri", "alias"} <= set(names):
            self.ok = False

    def kind_of_method(self, suffix):
        """method suffix 'ActivityStreamsLink' -> kind field; '' -> the single kind"""
        if suffix == "":
            return self.kinds[0] if len(self.kinds) == 1 else None
        for k in self.kinds:
            if k[0][:-len("Member")].lower() == suffix.lower():
                return k
        return None


def isset(k, recv="this"):
    f, flag, t = k
    return "%s.%s" % (recv, flag) if flag else "%s.%s != nil" % (recv, f)


def cleared_except(slot, keep, recv="this"):
    """every representation other than `keep` (a kind tuple, 'iri', or None) is absent"""
    cs = []
    for k in slot.kinds:
        if k is keep:
            continue
        f, flag, t = k
        cs.append("!%s.%s" % (recv, flag) if flag else "%s.%s == nil" % (recv, f))
    if keep != "iri" and getattr(slot, "has_iri", True):
        cs.append("%s.iri == nil" % recv)
    cs.append("%s.unknown == nil" % recv)
    return cs


def emit_slot(L, pkgpath, slot, meths, stats):
    T = "%s.%s" % (pkgpath, slot.name)
    def fn(name, ptr, body, params=None):
        L.append("func (%s%s).%s" % ("*" if ptr else "", T, name))
        if params is not None:
            L.append("  params this" + "".join(", " + p for p in params))
        L.extend("  " + b for b in body)
        stats["functions"] += 1
    # frame: a setter writes only the representation fields of the receiver itself
    rep = []
    for f, flag, t in slot.kinds:
        rep.append(f)
        if flag:
            rep.append(flag)
    rep += ["iri", "unknown"]
    mods = "modifies " + ", ".join("H:%s.%s[this]" % (T, f) for f in rep)
    if any(t == "time.Time" for _, _, t in slot.kinds):
        # a time.Time member is a nested struct: assigning it writes the fields of that nested value
        mods += ", H:time.Time.wall, H:time.Time.ext, H:time.Time.loc"
    keepframe = ["this.alias == old(this.alias)"] + (["this.myIdx == old(this.myIdx)", "this.parent == old(this.parent)"] if slot.is_iter else [])
    for name, m in sorted(meths.items()):
        if name in ("Clear", "clear") and not m["params"]:
            fn(name, m["ptr"], [mods, "[C18] ensures holds_nothing: " + " && ".join(cleared_except(slot, None) + keepframe)])
        elif name == "SetIRI" and len(m["params"]) == 1:
            v = m["params"][0][0]
            fn(name, m["ptr"], [mods, "[C18] ensures holds_exactly_the_iri: this.iri == %s && " % v + " && ".join(cleared_except(slot, "iri") + keepframe)], [v])
        elif name.startswith("Set") and name != "SetType" and len(m["params"]) == 1:
            k = slot.kind_of_method(name[3:])
            if k is None:
                stats["unmatched"].append(T + "." + name)
                continue
            v = m["params"][0][0]
            f, flag, t = k
            body = "this.%s == %s" % (f, v) + (" && this.%s" % flag if flag else "")
            fn(name, m["ptr"], [mods, "[C18] ensures holds_exactly_the_value_last_set: " + body + " && " + " && ".join(cleared_except(slot, k) + keepframe)], [v])
        elif name == "IsIRI" and not m["params"]:
            fn(name, m["ptr"], ["[C18] ensures reports_the_iri_representation: result == (this.iri != nil)"])
        elif name == "GetIRI" and not m["params"]:
            fn(name, m["ptr"], ["[C18] ensures returns_the_iri_held: result == this.iri"])
        elif name.startswith("Is") and not m["params"]:
            k = slot.kind_of_method(name[2:])
            if k is None:
                # single-kind properties: Is<TypeName>() for the only kind
                k = slot.kinds[0] if len(slot.kinds) == 1 else None
            if k is None:
                stats["unmatched"].append(T + "." + name)
                continue
            fn(name, m["ptr"], ["[C18] ensures reports_exactly_that_kind: result == (%s)" % isset(k)])
        elif name.startswith("Get") and name not in ("GetType",) and not m["params"]:
            k = slot.kind_of_method(name[3:])
            if k is None:
                stats["unmatched"].append(T + "." + name)
                continue
            fn(name, m["ptr"], ["[C18] ensures returns_the_value_held: result == this.%s" % k[0]])
        elif name == "HasAny" and not m["params"]:
            fn(name, m["ptr"], ["[C18] ensures some_representation_is_held: result == (" + " || ".join([isset(k) for k in slot.kinds] + ["this.iri != nil"]) + ")"])
        elif name == "GetType" and not m["params"]:
            ik = [k for k in slot.kinds if not k[1] and "vocab." in k[2]]
            e = "nil"
            for k in reversed(ik):
                e = "(this.%s != nil ? this.%s : %s)" % (k[0], k[0], e)
            fn(name, m["ptr"], ["[C18] ensures the_embedded_value_held_if_any: result == " + e])
        elif name == "SetType" and len(m["params"]) == 1:
            ik = [k for k in slot.kinds if not k[1] and "vocab." in k[2]]
            v = m["params"][0][0]
            alts = []
            for k in ik:
                alts.append("(this.%s.pl == %s.pl && this.%s != nil && %s)" % (k[0], v, k[0], " && ".join(cleared_except(slot, k))))
            if alts:
                fn(name, m["ptr"], [mods, "[C18] ensures holds_the_value_as_exactly_one_kind: result == nil ==> " + " || ".join(alts),
                                    "[C18] ensures frame: " + " && ".join(keepframe)], [v])


def new_elem(slot, k, v, e, T, idx, recv="this"):
    """element e holds exactly kind k (or the iri when k == 'iri') with value v, at position idx of recv"""
    cs = ["%s != nil" % e, "fresh(%s)" % e]
    if k == "iri":
        cs.append("%s.iri == %s" % (e, v))
    else:
        f, flag, t = k
        cs.append("%s.%s == %s" % (e, f, v))
        if flag:
            cs.append("%s.%s" % (e, flag))
    cs += cleared_except(slot, k, e)
    cs += ["%s.alias == %s.alias" % (e, recv), "%s.myIdx == %s" % (e, idx), '%s.parent == asiface(%s, "*%s")' % (e, recv, T)]
    return " && ".join(cs)


def emit_seq(L, pkgpath, pname, iname, slot, meths, stats, level):
    T = "%s.%s" % (pkgpath, pname)
    TI = "%s.%s" % (pkgpath, iname)
    def fn(name, ptr, body, params=None):
        L.append("func (%s%s).%s" % ("*" if ptr else "", T, name))
        if params is not None:
            L.append("  params this" + "".join(", " + p for p in params))
        L.extend("  " + b for b in body)
        stats["functions"] += 1
    P = "this.properties"
    def wf(upto=None, frm="0"):
        hi = "len(%s)" % P if upto is None else upto
        return '(forall j Int :: {%s[j]} %s <= j && j < %s ==> %s[j] != nil && %s[j].myIdx == j && %s[j].parent == asiface(this, "*%s"))' % (P, frm, hi, P, P, P, T)
    exist = "(arrof(%s) == 0 || !fresh(arrof(%s))) && (forall j Int :: {%s[j]} 0 <= j && j < len(%s) ==> !fresh(%s[j]))" % (P, P, P, P, P)
    distinct = "(forall j Int, k Int :: {%s[j], %s[k]} 0 <= j && j < k && k < len(%s) ==> %s[j] != %s[k])" % (P, P, P, P, P)
    ifields = [f for f, _ in slot.fields]
    mods_elem = ", ".join("H:%s.%s" % (TI, f) for f in ifields)
    mods = "modifies H:%s.properties[this], A:Int, %s" % (T, mods_elem)
    if any(t == "time.Time" for _, _, t in slot.kinds):
        mods += ", H:time.Time.wall, H:time.Time.ext, H:time.Time.loc"
    for name, m in sorted(meths.items()):
        ps = [p for p, _ in m["params"]]
        if name == "Len" and not ps:
            fn(name, m["ptr"], ["[C18] ensures the_number_of_elements: %s == len(%s)" % ("length" if "length" in m["res"] else "result", P)])
        elif name == "At" and len(ps) == 1:
            fn(name, m["ptr"], ['[C18] ensures the_element_at_that_position: 0 <= %s && %s < len(%s) ==> result == asiface(%s[%s], "*%s")' % (ps[0], ps[0], P, P, ps[0], TI)], ps)
        elif name == "Empty" and not ps:
            fn(name, m["ptr"], ["[C18] ensures no_elements: result == (len(%s) == 0)" % P])
        elif name == "Begin" and not ps:
            fn(name, m["ptr"], ['[C18] ensures first_element_or_none: (len(%s) == 0 ==> result == nil) && (len(%s) > 0 ==> result == asiface(%s[0], "*%s"))' % (P, P, P, TI)])
        elif name == "End" and not ps:
            fn(name, m["ptr"], ["[C18] ensures past_the_end_is_nil: result == nil"])
        elif name == "Swap" and len(ps) == 2:
            i, j = ps
            fn(name, m["ptr"], [
                "[C18] requires in_range: 0 <= %s && %s < len(%s) && 0 <= %s && %s < len(%s)" % (i, i, P, j, j, P),
                "[C18] requires positions_known: %s[%s] != nil && %s[%s] != nil && %s[%s].myIdx == %s && %s[%s].myIdx == %s" % (P, i, P, j, P, i, i, P, j, j),
                "modifies A:Int, H:%s.myIdx" % TI,
                "[C18] ensures exchanged: %s[%s] == old(%s[%s]) && %s[%s] == old(%s[%s])" % (P, i, P, j, P, j, P, i),
                "[C18] ensures others_in_place: forall k Int :: {%s[k]} 0 <= k && k < len(%s) && k != %s && k != %s ==> %s[k] == old(%s[k])" % (P, P, i, j, P, P),
                "[C18] ensures iterators_know_their_new_position: %s[%s].myIdx == %s && %s[%s].myIdx == %s" % (P, i, i, P, j, j)], ps)
        elif name == "Remove" and len(ps) == 1:
            x = ps[0]
            fn(name, m["ptr"], [
                "[C18] requires in_range: 0 <= %s && %s < len(%s)" % (x, x, P),
                "[C18] requires well_formed: " + wf(), "[C18] requires elements_exist: " + exist,
                mods,
                "[C18] ensures one_shorter: len(%s) == old(len(%s)) - 1" % (P, P),
                "[C18] ensures before_unchanged: forall j Int :: {%s[j]} 0 <= j && j < %s ==> %s[j] == old(%s[j])" % (P, x, P, P),
                "[C18] ensures after_shifted_down: forall j Int :: {%s[j]} %s <= j && j < len(%s) ==> %s[j] == old(%s[j + 1])" % (P, x, P, P, P),
                "[C18] ensures well_formed: " + wf(),
                "loop 1 [C18] invariant reindexed_so_far: %s <= i && i <= len(%s) && len(%s) == old(len(%s)) - 1 && %s && %s && (forall j Int :: {%s[j]} i <= j && j < len(%s) ==> %s[j] != nil && %s[j].myIdx == j + 1 && %s[j].parent == asiface(this, \"*%s\")) && (forall j Int :: {%s[j]} 0 <= j && j < %s ==> %s[j] == old(%s[j])) && (forall j Int :: {%s[j]} %s <= j && j < len(%s) ==> %s[j] == old(%s[j + 1])) && %s" % (x, P, P, P, wf("i"), "true", P, P, P, P, P, T, P, x, P, P, P, x, P, P, P, distinct)], ps)
        else:
            # kind-specific mutators: Append<K>, Prepend<K>, Insert<K>, Set<K> (and the IRI forms)
            mm = re.match(r"^(Append|Prepend|Insert|Set)(\w*)$", name)
            if not mm:
                continue
            op, suffix = mm.groups()
            if suffix == "IRI":
                k = "iri"
            else:
                k = slot.kind_of_method(suffix)
                if k is None:
                    stats["unmatched"].append(T + "." + name)
                    continue
            if level == "iri" and k != "iri":
                continue
            if level == "quick" and len(slot.kinds) > 4 and not (k == "iri" and op in ("Append", "Set", "Prepend")):
                if not (os.path.basename(pkgpath) in REPRESENTATIVE_TWO_KINDS and (k == "iri" or k is slot.kinds[0])):
                    continue
            if op == "Append" and len(ps) == 1:
                v = ps[0]
                n0 = "old(len(%s))" % P
                fn(name, m["ptr"], [
                    "[C18] requires well_formed: " + wf(), "[C18] requires elements_exist: " + exist, mods,
                    "[C18] ensures one_longer: len(%s) == %s + 1" % (P, n0),
                    "[C18] ensures earlier_elements_kept: forall j Int :: {%s[j]} 0 <= j && j < %s ==> %s[j] == old(%s[j])" % (P, n0, P, P),
                    "[C18] ensures new_last_element_holds_exactly_the_value: " + new_elem(slot, k, v, "%s[%s]" % (P, n0), T, n0),
                    "[C18] ensures well_formed: " + wf()], ps)
            elif op == "Set" and len(ps) == 2:
                x, v = ps
                fn(name, m["ptr"], [
                    "[C18] requires in_range: 0 <= %s && %s < len(%s)" % (x, x, P),
                    "[C18] requires well_formed: " + wf(), "[C18] requires elements_exist: " + exist, mods,
                    "[C18] ensures same_length: len(%s) == old(len(%s))" % (P, P),
                    "[C18] ensures other_elements_kept: forall j Int :: {%s[j]} 0 <= j && j < len(%s) && j != %s ==> %s[j] == old(%s[j])" % (P, P, x, P, P),
                    "[C18] ensures element_replaced_by_exactly_the_value: " + new_elem(slot, k, v, "%s[%s]" % (P, x), T, x),
                    "[C18] ensures well_formed: " + wf()], ps)
            elif op == "Prepend" and len(ps) == 1:
                v = ps[0]
                fn(name, m["ptr"], [
                    "[C18] requires well_formed: " + wf(), "[C18] requires elements_exist: " + exist, mods,
                    "[C18] ensures one_longer: len(%s) == old(len(%s)) + 1" % (P, P),
                    "[C18] ensures old_elements_shifted_up: forall j Int :: {%s[j]} 1 <= j && j < len(%s) ==> %s[j] == old(%s[j - 1])" % (P, P, P, P),
                    "[C18] ensures new_first_element_holds_exactly_the_value: " + new_elem(slot, k, v, "%s[0]" % P, T, "0"),
                    "[C18] ensures well_formed: " + wf(),
                    "loop 1 [C18] invariant reindexed_so_far: 1 <= i && i <= len(%s) && len(%s) == old(len(%s)) + 1 && %s && (forall j Int :: {%s[j]} i <= j && j < len(%s) ==> %s[j] != nil && %s[j].myIdx == j - 1 && %s[j].parent == asiface(this, \"*%s\")) && (forall j Int :: {%s[j]} 1 <= j && j < len(%s) ==> %s[j] == old(%s[j - 1])) && %s && %s" % (P, P, P, wf("i"), P, P, P, P, P, T, P, P, P, P, new_elem(slot, k, v, "%s[0]" % P, T, "0"), distinct)], ps)
            elif op == "Insert" and len(ps) == 2 and level == "insert":
                x, v = ps
                fn(name, m["ptr"], [
                    "[C18] requires in_range: 0 <= %s && %s <= len(%s)" % (x, x, P),
                    "[C18] requires well_formed: " + wf(), "[C18] requires elements_exist: " + exist, mods,
                    "[C18] ensures one_longer: len(%s) == old(len(%s)) + 1" % (P, P),
                    "[C18] ensures before_unchanged: forall j Int :: {%s[j]} 0 <= j && j < %s ==> %s[j] == old(%s[j])" % (P, x, P, P),
                    "[C18] ensures after_shifted_up: forall j Int :: {%s[j]} %s < j && j < len(%s) ==> %s[j] == old(%s[j - 1])" % (P, x, P, P, P),
                    "[C18] ensures inserted_element_holds_exactly_the_value: " + new_elem(slot, k, v, "%s[%s]" % (P, x), T, x),
                    "[C18] ensures well_formed: " + wf(),
                    "loop 1 [C18] invariant reindexed_so_far: %s <= i && i <= len(%s) && len(%s) == old(len(%s)) + 1 && %s && (forall j Int :: {%s[j]} i <= j && j < len(%s) && j > %s ==> %s[j] != nil && %s[j].myIdx == j - 1 && %s[j].parent == asiface(this, \"*%s\")) && (forall j Int :: {%s[j]} 0 <= j && j < %s ==> %s[j] == old(%s[j])) && (forall j Int :: {%s[j]} %s < j && j < len(%s) ==> %s[j] == old(%s[j - 1])) && %s && %s" % (x, P, P, P, wf("i"), P, P, x, P, P, P, T, P, x, P, P, P, x, P, P, P, new_elem(slot, k, v, "%s[%s]" % (P, x), T, x).replace(".myIdx == %s" % x, ".myIdx == %s" % x), distinct)], ps)


def emit_iter_nav(L, pkgpath, iname, meths, stats):
    TI = "%s.%s" % (pkgpath, iname)
    for name, m in sorted(meths.items()):
        if name == "Next" and not m["params"]:
            L.append("func (%s%s).Next" % ("*" if m["ptr"] else "", TI))
            L.append("  [C18] requires has_parent: this.parent != nil")
            L.append("  [C18] ensures the_element_after_this_one_or_none: result == (this.myIdx + 1 >= this.parent.Len() ? nil : this.parent.At(this.myIdx + 1))")
            stats["functions"] += 1
        elif name == "Prev" and not m["params"]:
            L.append("func (%s%s).Prev" % ("*" if m["ptr"] else "", TI))
            L.append("  [C18] requires has_parent: this.parent != nil")
            L.append("  [C18] ensures the_element_before_this_one_or_none: result == (this.myIdx - 1 < 0 ? nil : this.parent.At(this.myIdx - 1))")
            stats["functions"] += 1


VOCABS_GO = ["ActivityStreams", "ForgeFed", "Toot", "W3IDSecurityV1"]
CODEC = {  # kind field name (lower case, without "member") -> (package name, function) of streams/values
    "xmlschemastring": ("string", "DeserializeString"), "xmlschemaanyuri": ("anyURI", "DeserializeAnyURI"),
    "xmlschemadatetime": ("dateTime", "DeserializeDateTime"), "xmlschemaboolean": ("boolean", "DeserializeBoolean"),
    "xmlschemaduration": ("duration", "DeserializeDuration"), "xmlschemafloat": ("float", "DeserializeFloat"),
    "xmlschemanonnegativeinteger": ("nonNegativeInteger", "DeserializeNonNegativeInteger"),
    "rdflangstring": ("langString", "DeserializeLangString"), "rfcbcp47": ("bcp47", "DeserializeBcp47"),
    "rfcrfc2045": ("rfc2045", "DeserializeRfc2045"), "rfcrfc5988": ("rfc5988", "DeserializeRfc5988"),
}
MAPT = 'typetag("map[string]interface{}")'
STRT = 'typetag("string")'


def manager_method(gotype):
    """vocab.ActivityStreamsAccept -> DeserializeAcceptActivityStreams"""
    n = gotype[len("vocab."):]
    for v in VOCABS_GO:
        if n.startswith(v):
            return "Deserialize%s%s" % (n[len(v):], v)
    return None


def decode_chain(slot, raw, res, stats, where, pre="", extra=""):
    """clauses: which representation the decoded slot `res` holds, as a function of the raw JSON value `raw`"""
    ikinds = [k for k in slot.kinds if not k[1] and k[2].startswith("vocab.")]
    lkinds = [k for k in slot.kinds if k not in ikinds]
    out = []
    oks = []
    for k in ikinds:
        mm = manager_method(k[2])
        if mm is None:
            stats["unmatched"].append(where + ": no manager decoder for " + k[2])
            return None
        fnv = 'decFnByName("%s")' % mm
        ok = "decOK(%s, %s.pl, aliasMap)" % (fnv, raw)
        val = "decVal(%s, %s.pl, aliasMap)" % (fnv, raw)
        prem = " && ".join(["%s.dyn == %s" % (raw, MAPT), ok] + ["!" + o for o in oks])
        out.append("[C12] ensures an_embedded_%s_is_decoded_as_that_kind: %s%s ==> err_is_nil && %s != nil && %s.%s == %s && %s%s" % (
            k[0][:-len("Member")], pre, prem, res, res, k[0], val, " && ".join(cleared_except(slot, k, res)), extra))
        oks.append(ok)
    nomap = "(%s.dyn != %s%s)" % (raw, MAPT, "".join(" || (" + " && ".join("!" + o for o in oks) + ")" if oks else ""))
    noiri = "(%s.dyn != %s || !gIriTaken)" % (raw, STRT) if slot.has_iri else "true"
    louts = []
    for k in lkinds:
        key = k[0][:-len("Member")].lower()
        if key not in CODEC:
            stats["unmatched"].append(where + ": no codec for " + k[0])
            return None
        pkg, fn = CODEC[key]
        ok = "%s.%s_1(%s) == nil" % (pkg.lower(), fn, raw)
        val = "%s.%s_0(%s)" % (pkg.lower(), fn, raw)
        prem = " && ".join([nomap, noiri, ok] + ["!(" + o + ")" for o in louts])
        held = "%s.%s == %s" % (res, k[0], val) + (" && %s.%s" % (res, k[1]) if k[1] else "")
        out.append("[C12] ensures a_%s_literal_is_decoded_as_that_kind: %s%s ==> err_is_nil && %s != nil && %s && %s%s" % (
            key, pre, prem, res, held, " && ".join(cleared_except(slot, k, res)), extra))
        louts.append(ok)
    prem = " && ".join([nomap, noiri] + ["!(" + o + ")" for o in louts])
    allclear = []
    for k in slot.kinds:
        allclear.append("!%s.%s" % (res, k[1]) if k[1] else "%s.%s == nil" % (res, k[0]))
    out.append("[C12] ensures anything_else_is_kept_as_unknown: %s%s ==> err_is_nil && %s != nil && %s.unknown == %s%s%s%s" % (
        pre, prem, res, res, raw, (" && %s.iri == nil" % res) if slot.has_iri else "", "".join(" && " + c for c in allclear), extra))
    if slot.has_iri:
      out.append("[C12] ensures an_iri_string_is_decoded_as_an_iri: %s%s.dyn == %s && gIriTaken ==> err_is_nil && %s != nil && %s.iri != nil && %s.unknown == nil%s%s" % (
        pre, raw, STRT, res, res, res, "".join(" && " + c for c in allclear), extra))
    return out


def emit_decoders(L, pkgpath, structs, methods, src, stats):
    """decoders are package-level functions: deserialize<Iterator>(i, aliasMap) and, for functional
    properties, Deserialize<Name>Property(m, aliasMap)"""
    iter_decoders = {}
    for m in re.finditer(r"^func (deserialize\w+Iterator)\((\w+) interface\{\}, (\w+) map\[string\]string\) \(\*(\w+), error\)", src, re.M):
        fname, pi, pa, iname = m.groups()
        if iname not in structs:
            continue
        slot = Slot(iname, structs[iname])
        if not (slot.ok or slot.ok_noiri) or not slot.kinds or pa != "aliasMap":
            stats["skipped_structs"].append(pkgpath + "." + fname)
            continue
        if not dec_in_tier(pkgpath, slot):
            stats.setdefault("left_to_thorough_tier", []).append(pkgpath + "." + fname)
            continue
        cl = decode_chain(slot, pi, "result0", stats, pkgpath + "." + fname)
        if cl is None:
            continue
        L.append("func %s.%s" % (pkgpath, fname))
        L.append("  params %s, aliasMap" % pi)
        L.append("  [C11] requires manager_installed: mgr != nil")
        L.append("  [C11] ensures terminates_without_panic: true")
        L.append("  modifies gIriTaken, alloc")
        L.append("  [C11,C12] at call net/url.Parse#1: ghost gIriTaken = ($res1 == nil && len($res0.Scheme) > 0)")
        L.extend("  " + c.replace("err_is_nil", "result1 == nil") for c in cl)
        L.append("  [C11,C12] ensures a_decoded_element_is_a_new_object: result1 == nil ==> result0 != nil && fresh(result0) && allocated(result0)")
        L.append("dyncall %s.%s.* satisfies slot-decoder-call" % (pkgpath, fname))
        stats["functions"] += 1
        iter_decoders[iname] = fname
    for m in re.finditer(r"^func (Deserialize\w+Property)\((\w+) map\[string\]interface\{\}, (\w+) map\[string\]string\) \(\*(\w+), error\)", src, re.M):
        fname, pm, pa, sname = m.groups()
        if sname not in structs:
            continue
        slot = Slot(sname, structs[sname])
        key = tuple(pkgpath.split("/")[-2:])
        if not (slot.ok or slot.ok_noiri) or not slot.kinds or pa != "aliasMap" or pm != "m" or key not in ONTOPROPS:
            stats["skipped_structs"].append(pkgpath + "." + fname)
            continue
        op = ONTOPROPS[key]
        if not dec_in_tier(pkgpath, slot):
            stats.setdefault("left_to_thorough_tier", []).append(pkgpath + "." + fname)
            continue
        L.append("func %s.%s" % (pkgpath, fname))
        L.append("  params m, aliasMap")
        L.append("  [C11] requires manager_installed: mgr != nil")
        L.append("  [C11] ensures terminates_without_panic: true")
        L.append("  modifies gIriTaken")
        if op["uri"] is None:
            L.append('  let A = ""')
        else:
            L.append('  let A = (has(aliasMap, "%s") ? aliasMap["%s"] : "")' % (op["uri"], op["uri"]))
        L.append('  let PN = (len(A) > 0 ? A + ":" + "%s" : "%s")' % (op["name"], op["name"]))
        if "langString" in op["range"]:
            L.append('  let PRESENT = (has(m, PN) || has(m, PN + "Map"))')
            L.append('  let RAW = (has(m, PN) ? m[PN] : m[PN + "Map"])')
        else:
            L.append('  let PRESENT = has(m, PN)')
            L.append('  let RAW = m[PN]')
        L.append("  [C11,C12] at call net/url.Parse#1: ghost gIriTaken = ($res1 == nil && len($res0.Scheme) > 0)")
        L.append("  [C12] ensures an_absent_property_decodes_to_nothing: !PRESENT ==> result0 == nil && result1 == nil")
        cl = decode_chain(slot, "RAW", "result0", stats, pkgpath + "." + fname, pre="PRESENT && ", extra=" && result0.alias == A")
        if cl is None:
            L.append("  [C12] ensures placeholder: true")
            continue
        L.extend("  " + c.replace("err_is_nil", "result1 == nil") for c in cl)
        L.append("dyncall %s.%s.* satisfies slot-decoder-call" % (pkgpath, fname))
        stats["functions"] += 1
    # list-valued properties: one element per member of a JSON list (or the single value), in order, each the result
    # of the element decoder on that member; elements know their owner and position
    for m in re.finditer(r"^func (Deserialize\w+Property)\((\w+) map\[string\]interface\{\}, (\w+) map\[string\]string\) \(vocab\.(\w+), error\)", src, re.M):
        fname, pm, pa, vname = m.groups()
        sname = vname
        key = tuple(pkgpath.split("/")[-2:])
        if sname not in structs or [f for f, _ in structs[sname]] != ["properties", "alias"] or key not in ONTOPROPS or pm != "m" or pa != "aliasMap":
            continue
        iname = structs[sname][0][1].replace("[]*", "")
        if iname not in iter_decoders:
            stats["skipped_structs"].append(pkgpath + "." + fname)
            continue
        op = ONTOPROPS[key]
        T = "%s.%s" % (pkgpath, sname)
        R = 'cast(result0.pl, "*%s")' % T
        L.append("func %s.%s" % (pkgpath, fname))
        L.append("  params m, aliasMap")
        L.append("  [C11] requires manager_installed: mgr != nil")
        L.append("  [C11] ensures terminates_without_panic: true")
        L.append("  modifies gItN, gItRaw, gItRes, gIriTaken")
        if op["uri"] is None:
            L.append('  let A = ""')
        else:
            L.append('  let A = (has(aliasMap, "%s") ? aliasMap["%s"] : "")' % (op["uri"], op["uri"]))
        L.append('  let PN = (len(A) > 0 ? A + ":" + "%s" : "%s")' % (op["name"], op["name"]))
        if "langString" in op["range"]:
            L.append('  let PRESENT = (has(m, PN) || has(m, PN + "Map"))')
            L.append('  let RAW = (has(m, PN) ? m[PN] : m[PN + "Map"])')
        else:
            L.append('  let PRESENT = has(m, PN)')
            L.append('  let RAW = m[PN]')
        L.append('  let ISLIST = (RAW.dyn == typetag("[]interface{}"))')
        L.append('  let LIST = unboxas(RAW, "[]interface{}")')
        L.append('  let N = (ISLIST ? len(LIST) : 1)')
        L.append('  let G0 = gItN')
        dk = "%s.%s" % (pkgpath, iter_decoders[iname])
        L.append("  [C11,C12] at call %s#*: ghost gItRaw = gItRaw[gItN := $arg0]" % dk)
        L.append("  [C11,C12] at call %s#*: ghost gItRes = gItRes[gItN := $res0]" % dk)
        L.append("  [C11,C12] at call %s#*: ghost gItN = gItN + 1" % dk)
        L.append("  [C12] ensures an_absent_property_decodes_to_nothing: !PRESENT ==> result0 == nil && result1 == nil")
        L.append('  [C12] ensures one_element_per_member_in_order: PRESENT && result1 == nil ==> result0.dyn == typetag("*%s") && %s != nil && %s.alias == A && len(%s.properties) == N && gItN == G0 + N && (forall k Int :: {%s.properties[k]} 0 <= k && k < N ==> %s.properties[k] == gItRes[G0 + k] && gItRaw[G0 + k] == (ISLIST ? LIST[k] : RAW))' % (T, R, R, R, R, R))
        L.append('  [C12] ensures elements_know_their_owner_and_position: PRESENT && result1 == nil ==> (forall k Int :: {%s.properties[k]} 0 <= k && k < N ==> %s.properties[k].parent == result0 && %s.properties[k].myIdx == k)' % (R, R, R))
        for lo in (1, 2):
            L.append("  loop %d [C11,C12] invariant own_new_object: this != nil && fresh(this) && this.alias == A && (arrof(this.properties) == 0 || fresh(arrof(this.properties)))" % lo)
            L.append("  loop %d [C11,C12] invariant logged_results_exist: forall j Int :: {gItRes[j]} G0 <= j && j < gItN ==> gItRes[j] != nil && allocated(gItRes[j])" % lo)
            L.append("  loop %d [C11,C12] invariant logged_results_are_new: forall j Int :: {gItRes[j]} G0 <= j && j < gItN ==> fresh(gItRes[j]) && gItRes[j] != this" % lo)
            L.append("  loop %d [C11,C12] invariant logged_results_are_distinct: forall j Int, k Int :: {gItRes[j], gItRes[k]} G0 <= j && j < k && k < gItN ==> gItRes[j] != gItRes[k]" % lo)
        L.append("  loop 1 [C11,C12] invariant decoded_so_far: PRESENT && ISLIST && $ri + 1 <= len(LIST) && len(this.properties) == $ri + 1 && gItN == G0 + $ri + 1 && (forall k Int :: {this.properties[k]} 0 <= k && k <= $ri ==> this.properties[k] == gItRes[G0 + k] && gItRaw[G0 + k] == LIST[k])")
        L.append("  loop 2 [C11,C12] invariant all_decoded: PRESENT && len(this.properties) == N && gItN == G0 + N && $ri + 1 <= N && (forall k Int :: {this.properties[k]} 0 <= k && k < N ==> this.properties[k] == gItRes[G0 + k] && gItRaw[G0 + k] == (ISLIST ? LIST[k] : RAW))")
        L.append('  loop 2 [C11,C12] invariant linked_so_far: forall k Int :: {this.properties[k]} 0 <= k && k <= $ri ==> this.properties[k].parent == asiface(this, "*%s") && this.properties[k].myIdx == k' % T)
        stats["functions"] += 1
    # Serialize of a slot (functional property, or element of a list): the held representation, written by that
    # representation's own serializer -- the first held kind in declaration order, else the IRI's string, else
    # the unknown value kept from decoding
    for sname, fields in structs.items():
        slot = Slot(sname, fields)
        mname = "serialize" if slot.is_iter else "Serialize"
        if not (slot.ok or slot.ok_noiri) or not slot.kinds or mname not in methods.get(sname, {}) or not dec_in_tier(pkgpath, slot):
            continue
        ok_all = True
        cl = []
        earlier = []
        for k in slot.kinds:
            held = isset(k)
            prem = " && ".join([held] + ["!(%s)" % e for e in earlier])
            if not k[1] and k[2].startswith("vocab."):
                cl.append('[C12] ensures a_held_%s_is_written_by_its_own_serializer: %s ==> result0 == asiface(this.%s.Serialize_0(), "map[string]interface{}") && result1 == this.%s.Serialize_1()' % (k[0][:-len("Member")], prem, k[0], k[0]))
            else:
                key = k[0][:-len("Member")].lower()
                if key not in CODEC:
                    ok_all = False
                    break
                pk, fnn = CODEC[key]
                fnn = fnn.replace("Deserialize", "Serialize")
                cl.append("[C12] ensures a_held_%s_is_written_by_its_codec: %s ==> result0 == %s.%s_0(this.%s) && result1 == %s.%s_1(this.%s)" % (key, prem, pk.lower(), fnn, k[0], pk.lower(), fnn, k[0]))
            earlier.append(held)
        if not ok_all:
            stats["skipped_structs"].append(pkgpath + "." + sname + "." + mname)
            continue
        none = " && ".join("!(%s)" % e for e in earlier)
        if slot.has_iri:
            cl.append('[C12] ensures an_iri_is_written_as_its_string: %s && this.iri != nil ==> result1 == nil && result0.dyn == typetag("string") && unboxstr(result0) == str(this.iri)' % none)
            cl.append("[C12] ensures otherwise_the_unknown_value_is_written_back: %s && this.iri == nil ==> result1 == nil && result0 == this.unknown" % none)
        else:
            cl.append("[C12] ensures otherwise_the_unknown_value_is_written_back: %s ==> result1 == nil && result0 == this.unknown" % none)
        L.append("func (%s.%s).%s" % (pkgpath, sname, mname))
        L.append("  params this")
        L.extend("  " + c for c in cl)
        stats["functions"] += 1
    # Serialize of a list-valued property: the elements' own serializations, in order; a single one is written bare
    for sname, fields in structs.items():
        if [f for f, _ in fields] != ["properties", "alias"] or "Serialize" not in methods.get(sname, {}):
            continue
        iname = fields[0][1].replace("[]*", "")
        if iname not in structs or "serialize" not in methods.get(iname, {}):
            continue
        islot = Slot(iname, structs[iname])
        if not islot.ok or not dec_in_tier(pkgpath, islot):
            continue
        L.append("func (%s.%s).Serialize" % (pkgpath, sname))
        L.append("  params this")
        L.append("  modifies gItN, gItRaw")
        L.append("  let G0 = gItN")
        L.append("  let N = len(this.properties)")
        sk = "(%s.%s).serialize" % (pkgpath, iname)
        L.append("  [C12] at call %s#1: assert each_element_in_turn: iterator == this.properties[gItN - G0]" % sk)
        L.append("  [C12] at call %s#1: ghost gItRaw = gItRaw[gItN := $res0]" % sk)
        L.append("  [C12] at call %s#1: ghost gItN = gItN + 1" % sk)
        L.append('  [C12] ensures the_elements_serializations_in_order: result1 == nil ==> gItN == G0 + N && (N == 1 ? result0 == gItRaw[G0] : result0.dyn == typetag("[]interface{}") && len(unboxas(result0, "[]interface{}")) == N && (forall k Int :: {unboxas(result0, "[]interface{}")[k]} 0 <= k && k < N ==> unboxas(result0, "[]interface{}")[k] == gItRaw[G0 + k]))')
        L.append("  loop 1 [C12] invariant written_so_far: len(s) == $ri + 1 && gItN == G0 + $ri + 1 && $ri + 1 <= N && (arrof(s) == 0 || fresh(arrof(s))) && (forall k Int :: {s[k]} 0 <= k && k <= $ri ==> s[k] == gItRaw[G0 + k])")
        stats["functions"] += 1
    # Name(): the member name a property is written under -- the "Map" form exactly when a natural-language
    # property holds a language map (an alias prefix is allowed either way)
    key = tuple(pkgpath.split("/")[-2:])
    if key in ONTOPROPS:
        op = ONTOPROPS[key]
        N = op["name"]
        natural = "langString" in op["range"]
        for sname, fields in structs.items():
            if not sname.endswith("Property"):
                continue
            if "Name" not in methods.get(sname, {}):
                continue
            names = [f for f, _ in fields]
            plain = '(result == "%s" || result == this.alias + ":" + "%s")' % (N, N)
            mapf = '(result == "%sMap" || result == this.alias + ":" + "%sMap")' % (N, N)
            if "properties" in names:
                # Name() of a list goes through At(0).IsRDFLangString() on the element's interface: resolved to the
                # element's own method because the receiver's concrete type is known (govc -devirt)
                if not natural:
                    pass
                lang = "len(this.properties) == 1 && this.properties[0].rdfLangStringMember != nil"
                nolang = "(forall k Int :: 0 <= k && k < len(this.properties) ==> this.properties[k].rdfLangStringMember == nil)"
            else:
                lang = "this.rdfLangStringMember != nil"
                nolang = "this.rdfLangStringMember == nil"
            L.append("func (%s.%s).Name" % (pkgpath, sname))
            L.append("  params this")
            if natural:
                L.append("  [C12] ensures a_language_map_is_written_in_the_Map_form: %s ==> %s" % (lang, mapf))
                L.append("  [C12] ensures other_values_are_written_under_the_plain_name: %s ==> %s" % (nolang, plain))
            else:
                L.append("  [C12] ensures written_under_the_plain_name: %s" % plain)
            stats["functions"] += 1
    # the package's private manager: names the decoder function of each type
    mi = re.search(r"^type privateManager interface \{\n(.*?)^\}", open(os.path.join(os.path.dirname(src_path_of[pkgpath]), "gen_pkg.go")).read(), re.M | re.S) if pkgpath in src_path_of else None
    if mi:
        for mm in re.finditer(r"^\t(Deserialize\w+)\(\) func\(map\[string\]interface\{\}, map\[string\]string\)", mi.group(1), re.M):
            L.append("iface %s.privateManager.%s" % (pkgpath, mm.group(1)))
            L.append('  ensures result == decFnByName("%s") && result != nil' % mm.group(1))


src_path_of = {}
ONTOPROPS = {}
DEC_QUICK = False
# quick tier: every decoder of a property with at most 8 value kinds, plus these properties with the full
# (60+ kinds) object range; the thorough tier takes all of them
DEC_QUICK_BIG = {"property_object", "property_inreplyto", "property_to", "property_items", "property_ordereditems", "property_actor"}


def dec_in_tier(pkgpath, slot):
    return not DEC_QUICK or len(slot.kinds) <= 8 or pkgpath.split("/")[-1] in DEC_QUICK_BIG


def load_ontoprops(repo):
    sys.path.insert(0, os.path.dirname(os.path.abspath(__file__)))
    import ontology
    _, props = ontology.load(repo)
    # several vocabularies may define a property of the same name: re-read per vocabulary
    for fn, prefix, impldir, uri in ontology.VOCABS:
        doc = json.load(open(os.path.join(repo, "astool", fn)))
        for mm in ontology.members_of(doc):
            if ontology.is_property(mm):
                ONTOPROPS[(impldir, "property_" + mm["name"].lower())] = dict(name=mm["name"], uri=uri, range=ontology.ref_names(mm.get("range")))
    # JSON-LD's own members carry no vocabulary alias
    ONTOPROPS[("jsonld", "property_id")] = dict(name="id", uri=None, range=["anyURI"])
    # (the list-valued JSON-LD "type": names of types, or IRIs; its member name is fixed by JSON-LD, not by a vocabulary)
    ONTOPROPS[("jsonld", "property_type")] = dict(name="type", uri=None, range=["anyURI", "string"])


def main():
    repo = sys.argv[1]
    out = sys.argv[2]
    only = None
    level = "all"
    if "--level" in sys.argv:
        level = sys.argv[sys.argv.index("--level") + 1]
    if "--packages" in sys.argv:
        only = set(sys.argv[sys.argv.index("--packages") + 1].split(","))
    L = ["# GENERATED on every run by /verif/oracle/containers.py from the struct and method DECLARATIONS of", "# streams/impl/*/property_*/gen_property_*.go -- C18 contracts (the bodies are what is verified)", ""]
    stats = dict(packages=0, slot_structs=0, sequence_structs=0, functions=0, unmatched=[], skipped_structs=[])
    for path in sorted(glob.glob(os.path.join(repo, "streams/impl/*/property_*/gen_property_*.go"))):
        rel = os.path.relpath(os.path.dirname(path), repo)
        if only and os.path.basename(rel) not in only:
            continue
        pkg, structs, methods = parse(path)
        stats["packages"] += 1
        if level in ("decoders", "decoders-quick") and not stats.get("codecs_declared"):
            stats["codecs_declared"] = True
            load_ontoprops(repo)
            for pk, fnn in sorted(set(CODEC.values())):
                L.append("func streams/values/%s.%s" % (pk, fnn))
                L.append("  params this")
                L.append("  pure none")
                L.append("func streams/values/%s.%s" % (pk, fnn.replace("Deserialize", "Serialize")))
                L.append("  params this")
                L.append("  pure none")
            L.append("")
        if level in ("decoders", "decoders-quick"):
            globals()["DEC_QUICK"] = level == "decoders-quick"
            src_path_of[rel] = path
            emit_decoders(L, rel, structs, methods, open(path).read(), stats)
            L.append("")
            continue
        for sname, fields in structs.items():
            names = [f for f, _ in fields]
            if names == ["properties", "alias"]:
                stats["sequence_structs"] += 1
                if level != "slots":
                    mI = re.match(r"\[\]\*(\w+)$", fields[0][1])
                    if mI and mI.group(1) in structs:
                        islot = Slot(mI.group(1), structs[mI.group(1)])
                        if islot.ok and islot.kinds:
                            emit_seq(L, rel, sname, mI.group(1), islot, methods.get(sname, {}), stats, level)
                            emit_iter_nav(L, rel, mI.group(1), methods.get(mI.group(1), {}), stats)
                            L.append("")
                        else:
                            stats["skipped_structs"].append(rel + "." + sname + " (iterator does not fit)")
                continue
            slot = Slot(sname, fields)
            if not slot.ok or not slot.kinds:
                stats["skipped_structs"].append(rel + "." + sname)
                continue
            stats["slot_structs"] += 1
            emit_slot(L, rel, slot, methods.get(sname, {}), stats)
            L.append("")
    open(out, "w").write("\n".join(L) + "\n")
    print(json.dumps(dict(stats, lemma_failures=[])))


if __name__ == "__main__":
    main()
