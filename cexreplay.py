"""Counterexample replay: run the real function on the input of the solver's model (go test -overlay, nothing written
to the repository) and confirm the violation when the real code does what the model says: it panics (safety
obligations), or it returns exactly the results the model predicts for that input (postconditions: the solver has then
evaluated the failing clause on a real input/output pair). Anything else stays 'no-failing-input-found'.

Only package-level functions whose parameters and results are string, bool, int, int64, float64, time.Duration,
interface{} (holding nil, string, float64, bool, int) and error are replayed."""
import json, os, re, struct, subprocess, tempfile, shutil
from fractions import Fraction


def smt_int(v):
    v = v.strip()
    m = re.fullmatch(r"\(-\s*(\d+)\)", v)
    if m:
        return -int(m.group(1))
    if re.fullmatch(r"\d+", v):
        return int(v)
    return None


def smt_real(v):
    v = v.strip()
    m = re.fullmatch(r"\(-\s*(.+)\)", v)
    if m and not v.startswith("(/"):
        r = smt_real(m.group(1))
        return None if r is None else -r
    m = re.fullmatch(r"\(/\s*(\S+)\s+(\S+)\)", v)
    if m:
        a, b = smt_real(m.group(1)), smt_real(m.group(2))
        return None if a is None or b is None or b == 0 else a / b
    if re.fullmatch(r"\d+(\.\d+)?", v):
        return Fraction(v)
    return None


def smt_string(v):
    v = v.strip()
    if len(v) < 2 or v[0] != '"' or v[-1] != '"':
        return None
    body = v[1:-1].replace('""', '"')
    out, i = [], 0
    while i < len(body):
        m = re.match(r"\\u\{([0-9a-fA-F]+)\}", body[i:]) or re.match(r"\\u([0-9a-fA-F]{4})", body[i:])
        if m:
            out.append(chr(int(m.group(1), 16)))
            i += len(m.group(0))
        else:
            out.append(body[i])
            i += 1
    s = "".join(out)
    if any(ord(c) > 127 for c in s):
        return None  # Go strings are bytes, SMT strings are characters: only ASCII is faithful
    return s


def go_string(s):
    return '"' + "".join(c if 32 <= ord(c) < 127 and c not in '"\\' else "\\x%02x" % ord(c) for c in s) + '"'


def float_bits(fr):
    f = float(fr)
    if Fraction(f) != fr:
        return None
    return struct.unpack(">Q", struct.pack(">d", f))[0]


def value_of(vals, label, gotype, tags):
    """-> (kind, python value) or None"""
    g = lambda suffix: vals.get(label + ":" + suffix)
    if gotype in ("interface{}", "any", "error"):
        dyn = smt_int(g("dyn") or "")
        if dyn is None:
            return None
        if dyn == 0:
            return ("nil", None)
        if gotype == "error":
            return ("error", None)
        t = tags.get(dyn)
        if t == "string":
            s = smt_string(g("String") or "")
            return None if s is None else ("string", s)
        if t == "float64":
            r = smt_real(g("Real") or "")
            return None if r is None or float_bits(r) is None else ("float64", r)
        if t == "bool":
            return ("bool", g("Bool") == "true") if g("Bool") in ("true", "false") else None
        if t in ("int", "int64"):
            n = smt_int(g("Int") or "")
            return None if n is None else (t, n)
        return None
    if gotype == "string":
        s = smt_string(g("String") or "")
        return None if s is None else ("string", s)
    if gotype == "bool":
        return ("bool", g("Bool") == "true") if g("Bool") in ("true", "false") else None
    if gotype in ("int", "int64", "time.Duration"):
        n = smt_int(g("Int") or "")
        return None if n is None or abs(n) >= 2 ** 63 else (gotype, n)
    if gotype == "float64":
        r = smt_real(g("Real") or "")
        return None if r is None or float_bits(r) is None else ("float64", r)
    return None


def go_expr(kind, v, gotype):
    if kind == "nil":
        return "nil"
    if kind == "string":
        e = go_string(v)
    elif kind == "bool":
        e = "true" if v else "false"
    elif kind == "float64":
        e = "math.Float64frombits(0x%016x)" % float_bits(v)
    elif kind == "time.Duration":
        e = "time.Duration(%d)" % v
    else:
        e = "%s(%d)" % (kind, v)
    return "interface{}(%s)" % e if gotype in ("interface{}", "any") else e


def shown(kind, v):
    if kind == "float64":
        return "float64:%016x" % float_bits(v)
    if kind in ("nil", "error"):
        return kind
    if kind == "string":
        return "string:" + v.encode().hex()
    if kind == "bool":
        return "bool:" + ("true" if v else "false")
    return "int:%d" % v


HARNESS = '''package %(pkg)s

import (
	"fmt"
	"math"
	"testing"
	"time"
)

var _ = math.Pi
var _ = time.Second

func verifShow(v interface{}) string {
	switch x := v.(type) {
	case nil:
		return "nil"
	case error:
		return "error"
	case string:
		return fmt.Sprintf("string:%%x", x)
	case bool:
		return fmt.Sprintf("bool:%%v", x)
	case float64:
		return fmt.Sprintf("float64:%%016x", math.Float64bits(x))
	case int:
		return fmt.Sprintf("int:%%d", x)
	case int64:
		return fmt.Sprintf("int:%%d", x)
	case time.Duration:
		return fmt.Sprintf("int:%%d", int64(x))
	}
	return fmt.Sprintf("other:%%T", v)
}

// input taken from the solver's counterexample for %(ob)s
func TestVerifReplay(t *testing.T) {
	defer func() {
		if r := recover(); r != nil {
			fmt.Printf("VERIF-REPLAY-PANIC %%v\\n", r)
		}
	}()
	%(lhs)s%(fn)s(%(args)s)
%(prints)s}
'''


def try_replay(o, repo, env, outdir):
    """-> dict(confirmed=bool, ...) or None when the obligation's function or model cannot be replayed"""
    vals = o.get("values")
    if not vals or "." not in o.get("func", "") or o["func"].startswith("("):
        return None
    kind = o.get("kind", "")
    if not (kind == "post" or kind.startswith("safe.")):
        return None
    tags = {}
    params, results = {}, {}
    for k in vals:
        m = re.fullmatch(r"tag:(\d+):(.+)", k)
        if m:
            tags[int(m.group(1))] = m.group(2)
        m = re.fullmatch(r"param(\d+):([^:]*):gotype:(.+)", k)
        if m:
            params[int(m.group(1))] = ("param%s:%s" % (m.group(1), m.group(2)), m.group(3))
        m = re.fullmatch(r"result(\d+):gotype:(.+)", k)
        if m:
            results[int(m.group(1))] = ("result%s" % m.group(1), m.group(2))
    args, inputs = [], []
    for i in sorted(params):
        label, gt = params[i]
        kv = value_of(vals, label, gt, tags)
        if kv is None:
            return dict(confirmed=False, reason="model value of parameter %s (%s) cannot be written as a Go value" % (label, gt))
        args.append(go_expr(kv[0], kv[1], gt))
        inputs.append("%s = %s" % (label.split(":", 1)[1], args[-1]))
    pkgdir, fn = o["func"].rsplit(".", 1)
    absdir = os.path.join(os.path.abspath(repo), pkgdir)
    if not os.path.isdir(absdir):
        return None
    pkg = None
    for f in sorted(os.listdir(absdir)):
        if f.endswith(".go") and not f.endswith("_test.go"):
            m = re.search(r"^package (\w+)", open(os.path.join(absdir, f)).read(), re.M)
            if m:
                pkg = m.group(1)
                break
    if pkg is None:
        return None
    # the number of results comes from the source (safety obligations carry no result terms)
    src = "".join(open(os.path.join(absdir, f)).read() for f in os.listdir(absdir) if f.endswith(".go") and not f.endswith("_test.go"))
    m = re.search(r"^func %s\([^)]*\)\s*(\([^)]*\)|[\w.*\[\]{}]+)?\s*\{" % re.escape(fn), src, re.M)
    if not m:
        return None
    rs = (m.group(1) or "").strip()
    nres = 0 if not rs else (len([x for x in rs.strip("()").split(",") if x.strip()]) if rs.startswith("(") else 1)
    names = ["r%d" % i for i in range(nres)]
    lhs = (", ".join(names) + " := ") if nres else ""
    prints = "".join('\tfmt.Printf("VERIF-REPLAY-RESULT %d %%s\\n", verifShow(%s))\n' % (i, n) for i, n in enumerate(names))
    code = HARNESS % dict(pkg=pkg, ob=o["id"], lhs=lhs, fn=fn, args=", ".join(args), prints=prints)
    d = tempfile.mkdtemp(prefix="verif_cex_")
    try:
        tf = os.path.join(d, "zz_verif_replay_test.go")
        open(tf, "w").write(code)
        ov = os.path.join(d, "ov.json")
        json.dump({"Replace": {os.path.join(absdir, "zz_verif_replay_test.go"): tf}}, open(ov, "w"))
        cmd = ["go", "test", "-v", "-overlay", ov, "-vet=off", "-count=1", "-timeout", "60s", "-run", "^TestVerifReplay$", "./" + pkgdir]
        p = subprocess.run(cmd, cwd=repo, env=env, stdout=subprocess.PIPE, stderr=subprocess.STDOUT, text=True)
        out = p.stdout
    finally:
        shutil.rmtree(d, ignore_errors=True)
    panicked = re.search(r"^VERIF-REPLAY-PANIC (.*)$", out, re.M)
    got = dict((int(a), b) for a, b in re.findall(r"^VERIF-REPLAY-RESULT (\d+) (\S+)$", out, re.M))
    res = dict(confirmed=False, function=o["func"], input=inputs, go_test=code,
               replay_cmd="go test -overlay <zz_verif_replay_test.go injected into %s> -vet=off -count=1 -run ^TestVerifReplay$ ./%s" % (pkgdir, pkgdir),
               observed=("panic: " + panicked.group(1)) if panicked else ["result%d = %s" % (i, got[i]) for i in sorted(got)], output=out[-1500:])
    if kind.startswith("safe."):
        res["confirmed"] = bool(panicked)
        res["reason"] = "the real function panics on the model's input" if panicked else "the real function does not panic on the model's input"
        return res
    if panicked or len(got) != nres:
        res["reason"] = "the real function did not return normally on the model's input"
        return res
    exp = {}
    for i in sorted(results):
        label, gt = results[i]
        kv = value_of(vals, label, gt, tags)
        if kv is None:
            res["reason"] = "model value of %s (%s) cannot be compared" % (label, gt)
            return res
        exp[i] = shown(kv[0], kv[1])
    res["model_predicts"] = ["result%d = %s" % (i, exp[i]) for i in sorted(exp)]
    if len(exp) == nres and all(exp[i] == got.get(i) for i in exp):
        res["confirmed"] = True
        res["reason"] = "the real function returns exactly what the model predicts for this input, and the solver evaluates the clause to false on that input/output pair"
    else:
        res["reason"] = "the real function's results differ from the model's (the model relies on an uninterpreted library function or on ghost state): not a confirmed input"
    return res


def run_recorded(rec, repo, env):
    """re-run a recorded counterexample test on the current tree"""
    pkgdir = rec["function"].rsplit(".", 1)[0]
    d = tempfile.mkdtemp(prefix="verif_cex_")
    try:
        tf = os.path.join(d, "zz_verif_replay_test.go")
        open(tf, "w").write(rec["go_test"])
        ov = os.path.join(d, "ov.json")
        json.dump({"Replace": {os.path.join(os.path.abspath(repo), pkgdir, "zz_verif_replay_test.go"): tf}}, open(ov, "w"))
        p = subprocess.run(["go", "test", "-v", "-overlay", ov, "-vet=off", "-count=1", "-timeout", "60s", "-run", "^TestVerifReplay$", "./" + pkgdir],
                           cwd=repo, env=env, stdout=subprocess.PIPE, stderr=subprocess.STDOUT, text=True)
        return [l for l in p.stdout.splitlines() if l.startswith("VERIF-REPLAY-")]
    finally:
        shutil.rmtree(d, ignore_errors=True)
